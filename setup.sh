#!/bin/bash
# setup: build the framework once from files on disk (warms the go build cache for go1.26.8, incl. -race).
set -u
export GOFLAGS=-mod=mod GOPROXY=off GOSUMDB=off GOTOOLCHAIN=local
HERE=$(cd "$(dirname "$(readlink -f "$0")")" && pwd)
export VERIF_DIR=$HERE
cd "$HERE" || exit 2
cp /repo/go.sum "$HERE/go.sum" 2>/dev/null; cat "$HERE/go.sum.extra" >> "$HERE/go.sum" 2>/dev/null
mkdir -p "$HERE/bin" "$HERE/evidence" "$HERE/replays"
go1.26.8 build -o "$HERE/bin/verifrun" ./cmd/verifrun || exit 2
T=$(mktemp -d /tmp/verif-setup-XXXXXX)
./build.sh "$T" || { rm -rf "$T"; exit 2; }
./build.sh "$T" race || { rm -rf "$T"; exit 2; }
rm -rf "$T"
echo "setup ok"
