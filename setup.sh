#!/bin/bash
# setup: build the framework once from files on disk (warms the go build cache for go1.26.8, incl. -race).
set -u
export GOFLAGS=-mod=mod GOPROXY=off GOSUMDB=off GOTOOLCHAIN=local
cd /verif || exit 2
cp /repo/go.sum /verif/go.sum 2>/dev/null; cat /verif/go.sum.extra >> /verif/go.sum 2>/dev/null
mkdir -p /verif/bin /verif/evidence /verif/replays
go1.26.8 build -o /verif/bin/verifrun ./cmd/verifrun || exit 2
T=$(mktemp -d /tmp/verif-setup-XXXXXX)
./build.sh "$T" || { rm -rf "$T"; exit 2; }
./build.sh "$T" race || { rm -rf "$T"; exit 2; }
rm -rf "$T"
echo "setup ok"
