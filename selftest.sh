#!/bin/bash
# selftest: determinism of the simulator. For every sim-layer property, a sample of run seeds is
# executed in several fresh processes at GOMAXPROCS 1, 4 and 16; the event-log hashes (and the
# violation signatures) must be identical. Exit 0 ok, 1 nondeterminism found, 2 trouble.
set -u
export GOFLAGS=-mod=mod GOPROXY=off GOSUMDB=off GOTOOLCHAIN=local
HERE=$(cd "$(dirname "$(readlink -f "$0")")" && pwd)
export VERIF_DIR=$HERE
cd "$HERE" || exit 2
PROPS=${SELFTEST_PROPS:-"C01 C02 C04 C05 C06 C07 C08 C09 C10 C11 C12 C13 C14 C18 C19 C20"}
NSEEDS=${SELFTEST_SEEDS:-32}
D=$(mktemp -d /tmp/verif-selftest-XXXXXX)
trap 'rm -rf "$D"' EXIT
./build.sh "$D" >/dev/null 2>&1 || { echo "selftest: build failed"; exit 2; }
H="$D/harness.test"
bad=0
for P in $PROPS; do
  mkdir -p "$D/$P"
  for i in $(seq 0 $((NSEEDS-1))); do
    S=$((1000003*7+i))
    $H -test.run '^TestVerif$' -test.timeout 0 -verif.prop=$P -verif.mode=gen -verif.base=$S -verif.out=$D/$P/plan-$i.json >/dev/null 2>&1 || { echo "selftest: gen failed for $P"; exit 2; }
    sed -i 's/"seed": [0-9]*,/"seed": '$S',/' $D/$P/plan-$i.json
  done
  for rep in 1 2 3 4 5 6; do
    case $rep in 1|2) G=1;; 3|4) G=4;; *) G=16;; esac
    for i in $(seq 0 $((NSEEDS-1))); do
      ( GOMAXPROCS=$G $H -test.run '^TestVerif$' -test.timeout 0 -verif.prop=$P -verif.mode=run -verif.plan=$D/$P/plan-$i.json -verif.out=$D/$P/out-$i-$rep.json >/dev/null 2>&1 ) &
      if (( (i+1) % 16 == 0 )); then wait; fi
    done
    wait
  done
  python3 - "$D/$P" $NSEEDS $P <<'PY'
import json,sys,glob
d,n,p=sys.argv[1],int(sys.argv[2]),sys.argv[3]
bad=0
for i in range(n):
    sigs=set()
    for rep in range(1,7):
        try:
            o=json.load(open(f"{d}/out-{i}-{rep}.json"))
        except Exception as e:
            sigs.add("missing"); continue
        sigs.add((o.get("hash"), tuple(sorted(v["clause"]+"@"+v.get("loc","") for v in o.get("violations") or [])), o.get("trouble","")[:40]))
    if len(sigs)!=1:
        bad+=1
        print(f"selftest: {p} plan {i}: {len(sigs)} different outcomes over 6 processes: {list(sigs)[:3]}")
print(f"selftest: {p}: {n} seeds x 6 processes (GOMAXPROCS 1,1,4,4,16,16): {n-bad} deterministic, {bad} not")
sys.exit(1 if bad else 0)
PY
  [ $? -ne 0 ] && bad=1
done
exit $bad
