#!/bin/bash
# tools/allseeds.sh [name-prefix]  — for every seeded change: apply, run the checks that are recorded as catching it
# (first one only unless ALL=1), expect a VIOLATION line, undo. Prints one line per seed. /repo must be clean.
cd /verif
if [ -n "$(git -C /repo status --porcelain)" ]; then echo "/repo is not clean"; exit 2; fi
fail=0
for d in seeded/${1:-}*/; do
  n=$(basename $d)
  [ -f $d/meta.json ] || continue
  checks=$(python3 -c "import json;m=json.load(open('$d/meta.json'));print(' '.join(m['caught_by']) if '${ALL:-}' else m['caught_by'][0])")
  for pf in /verif/$d/patch*.diff; do
    git -C /repo apply $pf || { echo "$n: $(basename $pf) does not apply"; fail=1; continue; }
    for c in $checks; do
      out=$(./check $c --tier quick 2>&1)
      if echo "$out" | grep -q "^VIOLATION property=$c"; then echo "$n $(basename $pf): caught by $c: $(echo "$out" | grep '^violation' | head -1 | cut -c1-140)"; else echo "$n $(basename $pf): MISSED by $c"; fail=1; fi
    done
    git -C /repo checkout -- .
  done
done
find /verif/replays -name '*.json' -delete
exit $fail
