#!/usr/bin/env python3
# tools/seedmeta.py <name> <property> <needs> <caught_by(comma)> <signatures> [origin]
import json,sys
name,prop,needs,caught,sigs=sys.argv[1:6]
origin=sys.argv[6] if len(sys.argv)>6 else "independent sub-agent given only the property text and a scratch worktree"
log=open(f'/verif/seeded/{name}/confirm.log').read()
meta={"name":name,"breaks_property":prop,"origin":origin,"needs_to_manifest":needs,
 "confirmed":{"base":log.split('\n')[0].replace('## base: ',''),"builds":"BUILD-OK" in log,
   "existing_suite_passes_with_change": "FAIL" not in log.split('## demo with the change')[0],
   "demo_fails_with_change":"FAIL" in log.split('## demo with the change')[1].split('## demo without')[0],
   "demo_passes_without_change":"ok" in log.split('## demo without the change')[1] and "FAIL" not in log.split('## demo without the change')[1],
   "how":"tools/confirmseed.sh (scratch worktree of /repo HEAD, removed afterwards); see confirm.log"},
 "caught_by":[c for c in caught.split(',') if c],"violation_signatures":[s for s in sigs.split(',') if s],
 "ran":"tools/tryseed.sh <patch> <checks> (git -C /repo apply; ./check <id> --tier quick; git -C /repo checkout -- .)"}
json.dump(meta,open(f'/verif/seeded/{name}/meta.json','w'),indent=1)
print(json.dumps(meta["confirmed"]))
