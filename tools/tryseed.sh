#!/bin/bash
# tools/tryseed.sh <patch.diff> <PROP> [PROP...]  — apply a seeded change to /repo, run the quick checks, undo it.
# /repo must be clean (committed) before.
P=$1; shift
if [ -n "$(git -C /repo status --porcelain)" ]; then echo "/repo is not clean"; exit 2; fi
git -C /repo apply "$P" || { echo "patch does not apply"; exit 2; }
for prop in "$@"; do
  echo "=== $prop with $(basename $(dirname $P))"
  (cd /verif && ./check $prop --tier quick 2>&1 | grep -v "^VERIF_SEED" | cut -c1-400 | tail -8)
  echo "exit=$?"
done
git -C /repo checkout -- . 
git -C /repo status --porcelain
