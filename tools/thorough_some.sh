#!/bin/bash
for p in C01 C12 C13 C06 C07 C19; do
  echo "=== $p $(date +%T)"; ./check $p --tier thorough 2>&1 | tail -6 | cut -c1-600
done
echo "=== done $(date +%T)"
