#!/bin/bash
# tools/runseed.sh PROP SEED [layer]  — generate the plan of one exact run seed and execute it with the event log kept.
export GOFLAGS=-mod=mod GOPROXY=off GOSUMDB=off GOTOOLCHAIN=local
P=$1; S=$2; L=${3:-sim}
D=/tmp/verif-dbg; mkdir -p $D
cd /verif && ./build.sh $D >/dev/null 2>&1 || { rm -f $D/overlay.json; ./build.sh $D || exit 2; }
rm -f $D/overlay.json
$D/harness.test -test.run '^TestVerif$' -test.timeout 0 -verif.prop=$P -verif.layer=$L -verif.mode=gen -verif.base=$S -verif.out=$D/plan.json >/dev/null
sed -i 's/"seed": [0-9]*,/"seed": '$S',/' $D/plan.json
$D/harness.test -test.run '^TestVerif$' -test.timeout 0 -verif.prop=$P -verif.layer=$L -verif.mode=run -verif.plan=$D/plan.json -verif.out=$D/outcome.json 2>&1 | tail -30
echo "plan: $D/plan.json outcome: $D/outcome.json"
