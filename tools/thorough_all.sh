#!/bin/bash
for p in C01 C02 C03 C04 C05 C06 C07 C08 C09 C10 C11 C12 C13 C14 C18 C19 C20; do
  echo "=== $p $(date +%T)"; ./check $p --tier thorough 2>&1 | tail -6 | cut -c1-600
done
echo "=== done $(date +%T)"
