#!/bin/bash
# tools/allseeds_src.sh [name-prefix]  — like allseeds.sh, but never touches /repo: every seeded change is applied to
# a scratch worktree (/tmp/wt/allseeds) and the checks read the library sources from there (VERIF_SRC, see build.sh).
# Runs from a throw-away copy of /verif. One line per seed; exit 1 if a seed was missed. INST=<suffix> lets several
# instances (different name prefixes) run side by side.
WT=/tmp/wt/allseeds${INST:-}
V=/tmp/vcopy.allseeds${INST:-}
git -C /repo worktree remove --force $WT 2>/dev/null
git -C /repo worktree add --detach $WT HEAD >/dev/null 2>&1 || { echo "cannot create worktree"; exit 2; }
rm -rf $V; mkdir -p $V; rsync -a --exclude .git --exclude bin --exclude replays --exclude evidence /verif/ $V/
fail=0
for d in /verif/seeded/${1:-}*/; do
  n=$(basename $d)
  [ -f $d/meta.json ] || continue
  checks=$(python3 -c "import json;m=json.load(open('$d/meta.json'));print(' '.join(m['caught_by']) if '${ALL:-}' else m['caught_by'][0])")
  for pf in $d/patch*.diff; do
    git -C $WT apply $pf || { echo "$n: $(basename $pf) does not apply"; fail=1; continue; }
    for c in $checks; do
      out=$(cd $V && VERIF_SRC=$WT VERIF_WORKERS=${VERIF_WORKERS:-8} ./check $c --tier quick 2>&1)
      if echo "$out" | grep -q "^VIOLATION property=$c"; then echo "$n $(basename $pf): caught by $c: $(echo "$out" | grep '^violation' | head -1 | cut -c1-140)"; else echo "$n $(basename $pf): MISSED by $c"; fail=1; fi
    done
    git -C $WT checkout -- . ; git -C $WT clean -fdq
  done
done
git -C /repo worktree remove --force $WT
rm -rf $V
exit $fail
