#!/bin/bash
# tools/harvest.sh <PROP> <wave> [extra checks...] — take a sub-agent's delivery from /tmp/w<wave>/<PROP>-out, confirm it
# (tools/confirmseed.sh) and run the quick check of its property (and of any extra ones) against a scratch worktree with the change.
P=$1; W=$2; shift 2
SRC=/tmp/w$W/$P-out; N=$P-w$W; D=/verif/seeded/$N
mkdir -p $D
cp $SRC/patch.diff $D/patch.diff; cp $SRC/demo_test.go $D/demo_test.go; cp $SRC/notes.json $D/notes.json 2>/dev/null
PKG=$(python3 -c "import json;print(json.load(open('$SRC/notes.json'))['pkgdir'].strip('/').removeprefix('./'))")
/verif/tools/confirmseed.sh $N $D/patch.diff $D/demo_test.go $PKG
WT=/tmp/wt/h-$N; mkdir -p /tmp/wt
git -C /repo worktree remove --force $WT 2>/dev/null
git -C /repo worktree add -q --detach $WT HEAD && git -C $WT apply $D/patch.diff || { echo "cannot prepare $WT"; exit 2; }
VERIF_WORKERS=${VERIF_WORKERS:-8} TAIL=${TAIL:-6} /verif/tools/trysrc.sh $WT $P "$@"
git -C /repo worktree remove --force $WT
