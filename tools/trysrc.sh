#!/bin/bash
# tools/trysrc.sh <scratch worktree> <PROP> [PROP...]  — development aid: run the quick checks against a scratch
# worktree ("-": /repo as it is) of the repository (e.g. one with a seeded change applied) without touching /repo. Works from a throw-away
# copy of /verif so that evidence/ and replays/ of /verif are left alone. Not used by any registered command.
SRC=$1; shift
V=/tmp/vcopy.$$
mkdir -p $V; rsync -a --exclude .git --exclude bin --exclude replays --exclude evidence /verif/ $V/
for prop in "$@"; do
  echo "=== $prop with $SRC"
  (cd $V && VERIF_SRC=${SRC#-} VERIF_WORKERS=${VERIF_WORKERS:-6} ./check $prop --tier ${TIER:-quick} 2>&1 | grep -v "^VERIF_SEED" | cut -c1-400 | tail -${TAIL:-8})
done
rm -rf $V
