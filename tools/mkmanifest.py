#!/usr/bin/env python3
# Regenerates /verif/MANIFEST.json from the table below.
import json
ids=[json.loads(l)['id'] for l in open('/verif/properties.jsonl')]
claimed = {
 "C19": ("feeder -> channel -> real PublishIPFIXMessages -> broker stub behind the library's SetSaramaProducer seam that stalls its input, encodes values late and delays acks; conservation / order / framing / protobuf-field model and the real consumer-side decoder (modest: the simulator-relevant behaviour is back-pressure, ordering and the lifetime of the payload buffer)", "6 C19"),
 "C20": ("cmd/collector compiled as an importable package by the overlay: arrival task, HTTP client tasks on the real handlers, reset task under the seeded baton scheduler (sim layer) and the race detector (race layer); pre-fill to and beyond the 4096 cap; porcupine against a bounded FIFO window; rendered-field check", "6 C20"),
 "C18": ("real exporter and real collector TLS/DTLS handshakes (crypto/tls, pion/dtls) over the simulated network in fake time: certificate zoo with fixed validity windows, bubble clock moved before / inside / after them, trust-matrix model; adversarial peers (TLS server capped at 1.1/1.2/1.3, plaintext sender, plaintext listener), re-use of one client configuration object", "6 C18"),
 "C14": ("real exporter with its refresh / connection-check goroutines in fake time: sends on and 1 ns around ticks, first template after the first tick, peer FIN, write error on a refresh datagram, concurrent repeated Close, sends after Close; tap + independent decoder + goroutine census (sim layer) and race detector (race layer)", "6 C14"),
 "C12": ("1-8 raw clients over tcp / udp / tls against the real Start()/Stop() path under the seeded baton scheduler with preemptions (sim layer) and under the race detector (race layer); stalling consumer, abrupt closes, Stop during traffic; per-connection order / exactly-once model, connection count, Stop liveness in simulated time, goroutine + socket census", "6 C12"),
 "C13": ("2-4 tasks on one real AggregationProcess under the seeded baton scheduler with preemptions inside library methods (sim layer) and as real goroutines under the race detector (race layer); invoke/return history checked with porcupine against the sequential model; worker-pool member; map/heap bijection after the run", "6 C13"),
 "C10": ("real collector on a simulator-owned clock (clock/timer seam): timer firing and callback execution are separate plan operations placed anywhere relative to template / refresh / replace / bad-template / data traffic; TTL model + timer census after every operation; second member with the library's real clock inside the bubble", "6 C10"),
 "C05": ("real AggregationProcess driven in fake time against a sequential reference model (aggmodel) after every operation: per-node delta sums, totals, throughput, latest-reporter fields, isolation, reset", "6 C05-C07"),
 "C06": ("real AggregationProcess in fake time: clock advances that land exactly on / 1 ns around deadlines, failing export callbacks (fault), map/heap bijection + heap order + deadlines + callback order after every operation", "6 C05-C07"),
 "C07": ("real AggregationProcess in fake time: source/destination arrival orders and multiplicities interleaved with expiry scans up to retry exhaustion; ready/filled status and merged fields against the model", "6 C05-C07"),
 "C01": ("end-to-end: real exporter -> simulated network (segmentation, delay; loss/dup/reorder in a lossy-udp member) -> real collector over tcp, udp, tls (real crypto/tls) and dtls (real pion/dtls), IPv4 and IPv6; consumer output compared field by field with what the application handed", "6 C01"),
 "C03": ("collector decode under transport corruption: grammar-generated and mutated messages against the real decoder (hook path) and the real UDP server path; independent reference parser + template-table model; step-budget watchdog for non-termination", "6 C03"),
 "C04": ("histories of template / replacing / bad-template / data messages from several clients over the decode hook and over real TCP connections; template-table model stepped in the same order, table compared after every message", "6 C04"),
 "C11": ("raw client over a simulated TCP stream with seeded segmentation, delays and short reads against the real accept/reader goroutines; message-sequence prefix model", "6 C11"),
 "C02": ("exporter session sim; every Write/datagram on the exporter's simulated socket judged by an independent RFC 7011 decoder (oracle/ipfixref) and compared with the handed values", "6 C02"),
 "C08": ("exporter session sim over tcp/udp in fake time with the refresh goroutine running; header bookkeeping model on tapped bytes; counter placed near 2^32 by hook", "6 C08"),
 "C09": ("exporter session sim: invalid operations injected into valid sessions, byte-level tap proves 'error => nothing written'", "6 C09"),
}
na = {
 "C15": "pure function of (type, value): no schedule, clock, peer, I/O or fault in its statement or quantifier, so deterministic simulation has nothing to decide (DESIGN.md section 5); boundary values are exercised incidentally by C01/C02 generators",
 "C16": "single-threaded in-memory builder object: histories are method-call sequences on one object with no concurrency, time, I/O or fault (DESIGN.md section 5); incidental coverage through set reuse in exporter workloads",
 "C17": "pure function of (decoding mode, template bytes, data bytes) (DESIGN.md section 5); the three modes are exercised incidentally by C03's reference parser",
}
checks=[]
for pid in ids:
    if pid in claimed:
        text, ref = claimed[pid]
        checks.append({
          "property_id": pid,
          "quick_cmd": f"./check {pid} --tier quick",
          "thorough_cmd": f"./check {pid} --tier thorough",
          "evidence_file": f"/verif/evidence/{pid}.json",
          "replay_cmd_template": f"./check {pid} --replay {{path}}",
          "engine": "detsim",
          "level_claimed": {"category": "exploration", "text": "seeded search over workloads, fault plans and schedules in a deterministic simulation of the real code: " + text + ". Evidence, not proof: a clean batch covers the plans that were run.", "design_ref": "DESIGN.md section " + ref},
          "level_note": "trusted: the go/ast instrumenter only inserts scheduling calls and redirects socket/mutex identifiers; simnet's stream/datagram model; oracle/ipfixref written from RFC 7011; Go's testing/synctest fake clock",
          "technique": "deterministic simulation with fault injection (seeded baton scheduler in a synctest bubble, simulated network, reference-model oracle, ddmin + fresh-process replay)",
        })
not_app=[]
for pid in ids:
    if pid in claimed: continue
    not_app.append({"property_id": pid, "reason": na.get(pid, "check under construction in this session (planned in DESIGN.md section 0); not claimed until its check exists")})
m={"version":1,
 "setup_cmd":"./setup.sh",
 "hooks":{"guard":"verif","enable":"/verif/build.sh: go/ast instrumentation of /repo's working tree into a scratch dir + `go1.26.8 test -c -tags verif -overlay <scratch>/overlay.json` (hook files live in /verif/hooks and are added by the overlay; /repo carries no hook commits)","baseline_off_cmd":"cd /repo && GOFLAGS=-mod=mod GOPROXY=off GOSUMDB=off go test -vet=off -count=1 -timeout 25m ./...","source_commits":[],"add_only":True},
 "engines":[{"name":"detsim","path":"/verif/verifsim, /verif/internal/instrument, /verif/harness, /verif/cmd/verifrun","serves_properties":sorted(claimed.keys()),"kind_free_text":"deterministic simulation: source-instrumented go-ipfix packages run under a seeded baton scheduler inside a testing/synctest bubble over a simulated network with fault injection; explicit JSON plans, delta-debugging minimiser, fresh-process replay"}],
 "checks":checks,
 "not_applicable":not_app,
 "notes":"fix: commits in /repo and recorded findings are listed in /verif/known_findings.json and DESIGN.md section 10."}
json.dump(m,open('/verif/MANIFEST.json','w'),indent=1)
print("claimed:",sorted(claimed.keys()))
