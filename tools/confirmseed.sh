#!/bin/bash
# tools/confirmseed.sh <name> <patch.diff> <demo_test.go> <pkgdir>  — confirm a seeded change in a scratch worktree of /repo HEAD:
# builds, existing suite passes with it, demo fails with it and passes without it. Writes a log to /verif/seeded/<name>/confirm.log
export GOFLAGS=-mod=mod GOPROXY=off GOSUMDB=off
NAME=$1; PATCH=$(readlink -f $2); DEMO=$(readlink -f $3); PKG=$4
SKIP='TestExportingProcessWithDTLS|TestExportingProcessWithTLS|TestInitKafkaProducerWithTLS|TestUDPCollectingProcess_ConcurrentClient|TestTLSCollectingProcess|TestDTLSCollectingProcess|TestSeededDemo'
WT=/tmp/cs/$NAME
mkdir -p /tmp/cs /verif/seeded/$NAME
LOG=/verif/seeded/$NAME/confirm.log
git -C /repo worktree remove --force $WT 2>/dev/null
git -C /repo worktree add -q --detach $WT HEAD || exit 2
{
cd $WT
echo "## base: $(git rev-parse --short HEAD)"
git apply $PATCH || { echo "PATCH DOES NOT APPLY"; exit 3; }
cp $DEMO $WT/$PKG/zz_seeded_demo_test.go
echo "## build"; go build ./... && go test -vet=off -count=1 -run '^$' ./... >/dev/null && echo BUILD-OK
echo "## existing suite with the change"
go test -vet=off -count=1 -timeout 20m -skip "$SKIP" ./... 2>&1 | grep -v "no test files" | tail -20
echo "## demo with the change (must FAIL)"
go test -vet=off -count=1 -timeout 10m -run 'TestSeededDemo' ./$PKG/ 2>&1 | tail -15
echo "## demo without the change (must PASS)"
git apply -R $PATCH
go test -vet=off -count=1 -timeout 10m -run 'TestSeededDemo' ./$PKG/ 2>&1 | tail -5
} > $LOG 2>&1
cd /; git -C /repo worktree remove --force $WT
grep -E "^(ok|FAIL|---|BUILD-OK|## |PATCH)" $LOG | cut -c1-160
