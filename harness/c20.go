package harness

import (
	"encoding/json"
	"fmt"
	"math/rand/v2"
	"net"
	"net/http"
	"net/http/httptest"
	"regexp"
	"sort"
	"strconv"
	"strings"
	"sync"
	"sync/atomic"
	"time"

	"github.com/anishathalye/porcupine"

	"github.com/vmware/go-ipfix/pkg/entities"
	"github.com/vmware/go-ipfix/pkg/registry"
	cmdc "github.com/vmware/go-ipfix/pkg/verifsim/cmdcollector"

	"verif/sim/plan"
)

// C20 — the standalone collector keeps a bounded, ordered window of rendered records.
//
// The code under test is cmd/collector/collector.go, instrumented and offered as an
// importable package by the overlay (only the package clause differs). One arrival task
// (as signalHandler does), 1-3 HTTP client tasks calling the real handlers through
// httptest.ResponseRecorder, a reset task; history checked by porcupine against a
// bounded-window model. Plan ops (T = task): add (B = number of messages, D = kind seed),
// get (A = count, -1 unset; S = format), reset, bad (A = which invalid request).
// Cfg prefill: messages added before the concurrent part (to reach the cap).

func init() {
	register(&Prop{
		ID: "C20", Gen: genC20, GenRace: genC20, Run: runC20, Quick: 400, Thorough: 40000, RaceQuick: 60, RaceThorough: 3000,
		Real: []string{"cmd/collector: addIPFIXMessage (rendering, cap / eviction), flowRecordHandler, resetRecordHandler (the file is compiled as an importable package by the overlay; only its package clause is rewritten)", "pkg/entities message / record accessors"},
		Stub: []string{"HTTP server and OS signals (handlers are called directly with httptest.ResponseRecorder)", "goroutine scheduling (sim layer: seeded baton scheduler with preemptions; race layer: Go scheduler under the race detector)"},
		Rule: "histories of message arrivals (template and data, all supported field types), GET /records with any count / format, POST /reset and invalid requests from concurrent tasks; an eighth of the plans fill the store through the collecting process's decode path (valid messages between ones it has to refuse) and query the window; a fraction of runs is pre-filled to the 4096 cap so that eviction happens during the concurrent part; invoke/return history checked with porcupine against a bounded FIFO window; non-trivial = at least one query overlapping an arrival or the cap reached; distinct = distinct event-log hash (sim) / plan seed (race)",
	})
}

func genC20(seed uint64, tier string) *plan.Plan {
	r := rand.New(rand.NewPCG(seed, 0xc20))
	pl := &plan.Plan{Cfg: map[string]int64{}}
	if r.IntN(8) == 0 {
		genC20Pipeline(r, pl)
		return pl
	}
	switch r.IntN(4) {
	case 0:
		pl.Cfg["prefill"] = int64(cmdc.VerifCap - r.IntN(4))
	case 1:
		pl.Cfg["prefill"] = int64(cmdc.VerifCap + r.IntN(5000)) // the cap was exceeded several times over before
	default:
		pl.Cfg["prefill"] = int64(r.IntN(6))
	}
	nt := 2 + r.IntN(3)
	pl.Cfg["tasks"] = int64(nt)
	n := 6 + r.IntN(12)
	lastGet := 0
	for i := 0; i < n; i++ {
		switch x := r.IntN(20); {
		case x < 9:
			pl.Ops = append(pl.Ops, plan.Op{K: "add", T: 0, B: int64(1 + r.IntN(3)), D: int64(r.IntN(1 << 20))})
		case x < 16:
			cnt := int64(-1)
			switch r.IntN(5) {
			case 0:
				cnt = 0
			case 1:
				cnt = int64(1 + r.IntN(4))
			case 2:
				cnt = int64(cmdc.VerifCap + r.IntN(3) - 1)
			case 3:
				cnt = int64(r.IntN(6000))
			}
			lastGet = 1 + r.IntN(nt-1)
			pl.Ops = append(pl.Ops, plan.Op{K: "get", T: lastGet, A: cnt, S: []string{"", "json", "text"}[r.IntN(3)]})
		case x < 18:
			t := 1 + r.IntN(nt-1)
			if nt > 2 && t == lastGet && r.IntN(3) > 0 {
				t = 1 + (t % (nt - 1)) // another client than the one that asked last: the two requests can overlap
			}
			pl.Ops = append(pl.Ops, plan.Op{K: "reset", T: t})
		default:
			pl.Ops = append(pl.Ops, plan.Op{K: "bad", T: 1 + r.IntN(nt-1), A: int64(r.IntN(5))})
		}
	}
	genSchedule(r, pl, 8, 3000)
	return pl
}

type c20In struct {
	Kind  string
	ID    int
	Count int
}
type c20Out struct {
	IDs    []int
	Status int
}
type c20State struct{ lo, hi int } // stored ids lo..hi (empty when lo > hi)

func c20Model(capN int) porcupine.Model {
	return porcupine.Model{
		Init: func() interface{} { return c20State{1, 0} },
		Step: func(state, input, output interface{}) (bool, interface{}) {
			st := state.(c20State)
			in := input.(c20In)
			out := output.(c20Out)
			switch in.Kind {
			case "add":
				if st.lo > st.hi {
					return true, c20State{in.ID, in.ID}
				}
				if in.ID != st.hi+1 {
					return false, st // arrivals are numbered in arrival order by one task
				}
				ns := c20State{st.lo, in.ID}
				if ns.hi-ns.lo+1 > capN {
					ns.lo = ns.hi - capN + 1
				}
				return true, ns
			case "reset":
				return out.Status == 200, c20State{1, 0}
			case "get":
				if out.Status != 200 {
					return false, st
				}
				stored := st.hi - st.lo + 1
				if stored < 0 {
					stored = 0
				}
				n := in.Count
				if n < 0 || n > stored {
					n = stored
				}
				if len(out.IDs) != n {
					return false, st
				}
				for i, id := range out.IDs {
					if id != st.hi-n+1+i {
						return false, st
					}
				}
				return true, st
			}
			return false, st
		},
		DescribeOperation: func(input, output interface{}) string {
			in, out := input.(c20In), output.(c20Out)
			switch in.Kind {
			case "add":
				return fmt.Sprintf("add(%d)", in.ID)
			case "reset":
				return "reset"
			}
			if len(out.IDs) > 6 {
				return fmt.Sprintf("get(%d)->%d ids [%d..%d]", in.Count, len(out.IDs), out.IDs[0], out.IDs[len(out.IDs)-1])
			}
			return fmt.Sprintf("get(%d)->%v", in.Count, out.IDs)
		},
	}
}

var seqRe = regexp.MustCompile(`Sequence No\.: (\d+),`)

// c20Message builds arrival number id: a template for id%7==0, otherwise a data message
// with one record per supported type family; returns the (name, rendered value) pairs.
func c20Message(id int, seed int64) (*entities.Message, [][2]string) {
	r := rand.New(rand.NewPCG(uint64(seed), uint64(id)))
	msg := entities.NewMessage(true)
	msg.SetVersion(10)
	msg.SetSequenceNum(uint32(id))
	msg.SetObsDomainID(uint32(r.Uint32()))
	msg.SetExportTime(uint32(r.Uint32()))
	msg.SetExportAddress("10.0.0.9")
	set := entities.NewSet(true)
	var pairs [][2]string
	if id%7 == 0 {
		set.PrepareSet(entities.Template, 256)
		var els []entities.InfoElementWithValue
		for i := 0; i < 1+r.IntN(4); i++ {
			sp := catalog[r.IntN(len(catalog))]
			e, _ := registry.GetInfoElement(sp.Name, sp.Ent)
			el, err := entities.DecodeAndCreateInfoElementWithValue(e, nil)
			if err != nil {
				continue
			}
			els = append(els, el)
			pairs = append(pairs, [2]string{sp.Name, fmt.Sprintf("len=%d (enterprise ID = %d)", sp.Len, sp.Ent)})
		}
		set.AddRecord(els, 256)
	} else {
		set.PrepareSet(entities.Data, 256)
		for rec := 0; rec < 1+r.IntN(2); rec++ {
			var els []entities.InfoElementWithValue
			for i := 0; i < 1+r.IntN(5); i++ {
				var sp elemSpec
				if r.IntN(4) == 0 {
					sp = catalogUser[r.IntN(len(catalogUser))]
				} else {
					sp = catalog[r.IntN(len(catalog))]
				}
				e, _ := registry.GetInfoElement(sp.Name, sp.Ent)
				w := genWire(r, sp, 12)
				if sp.Type == entities.String {
					// JSON cannot carry bytes that are not UTF-8: keep text ASCII
					for j := range w {
						if w[j] >= 0x7f || w[j] < 0x20 {
							w[j] = 'x'
						}
					}
					// ... but every Unicode text is fair: control characters, quotes and backslashes,
					// characters of 2, 3 and 4 bytes (all of which JSON can carry, escaped or not)
					if sp.Len == entities.VariableLength && len(w) > 0 && r.IntN(3) == 0 {
						specials := []string{"\x00", "\x07", "\x0b", "\x1b", "\x7f", "\"", "\\", "\n", "\t", "é", "日", "😀", "\u2028"}
						var nw []byte
						for j := range w {
							if r.IntN(4) == 0 {
								nw = append(nw, specials[r.IntN(len(specials))]...)
							} else {
								nw = append(nw, w[j])
							}
						}
						w = nw
					}
				}
				el := mkElement(sp, e, w)
				els = append(els, el)
				pairs = append(pairs, [2]string{sp.Name, renderValue(sp, el)})
			}
			set.AddRecord(els, 256)
		}
	}
	msg.AddSet(set)
	return msg, pairs
}

func zeroLen(sp elemSpec) int {
	if sp.Len == entities.VariableLength {
		return 0
	}
	return int(sp.Len)
}

// renderValue is the value as any textual rendering would show it (fmt %v of the typed value).
func renderValue(sp elemSpec, el entities.InfoElementWithValue) string {
	switch sp.Type {
	case entities.OctetArray:
		return fmt.Sprintf("%v", el.GetOctetArrayValue())
	case entities.Unsigned8:
		return fmt.Sprint(el.GetUnsigned8Value())
	case entities.Unsigned16:
		return fmt.Sprint(el.GetUnsigned16Value())
	case entities.Unsigned32, entities.DateTimeSeconds:
		return fmt.Sprint(el.GetUnsigned32Value())
	case entities.Unsigned64, entities.DateTimeMilliseconds:
		return fmt.Sprint(el.GetUnsigned64Value())
	case entities.Signed8:
		return fmt.Sprint(el.GetSigned8Value())
	case entities.Signed16:
		return fmt.Sprint(el.GetSigned16Value())
	case entities.Signed32:
		return fmt.Sprint(el.GetSigned32Value())
	case entities.Signed64:
		return fmt.Sprint(el.GetSigned64Value())
	case entities.Float32:
		return fmt.Sprint(el.GetFloat32Value())
	case entities.Float64:
		return fmt.Sprint(el.GetFloat64Value())
	case entities.Boolean:
		return fmt.Sprint(el.GetBooleanValue())
	case entities.MacAddress:
		return fmt.Sprint(el.GetMacAddressValue())
	case entities.Ipv4Address, entities.Ipv6Address:
		return fmt.Sprint(net.IP(el.GetIPAddressValue()))
	case entities.String:
		return el.GetStringValue()
	}
	return "?"
}

func runC20(pl *plan.Plan, out *plan.Outcome) {
	if cfgOr(pl, "pipeline", 0) == 1 {
		runC20Pipeline(pl, out)
		return
	}
	env := newEnv(pl, out, keepLogFlag)
	cmdc.VerifClear()
	nextID := 1
	wantPairs := map[int][][2]string{}
	prefill := int(cfgOr(pl, "prefill", 0))
	// prefill runs on the scheduler's own goroutine (never parks): fast
	for i := 0; i < prefill; i++ {
		msg, _ := c20Message(nextID, 1)
		if nextID%7 != 0 && i < prefill-8 {
			// keep the bulk cheap: a tiny data message
			msg, _ = c20Tiny(nextID)
		}
		cmdc.VerifAdd(msg)
		nextID++
	}
	firstStored := nextID - cmdc.VerifLen()
	if prefill > cmdc.VerifCap && cmdc.VerifLen() != cmdc.VerifCap {
		env.Violate("cap", "", "%d messages arrived, %d entries are stored (cap %d)", prefill, cmdc.VerifLen(), cmdc.VerifCap)
	}
	var stamp atomic.Int64
	var hmu sync.Mutex
	var history []porcupine.Operation
	// the prefill is history too (sequential, before everything else)
	if prefill > 0 {
		lo := firstStored
		for id := lo; id < nextID; id++ {
			c := stamp.Add(1)
			history = append(history, porcupine.Operation{ClientId: 0, Input: c20In{Kind: "add", ID: id}, Call: c, Output: c20Out{}, Return: stamp.Add(1)})
		}
	}
	record := func(client int, in c20In, call int64, o c20Out) {
		ret := stamp.Add(1)
		hmu.Lock()
		history = append(history, porcupine.Operation{ClientId: client, Input: in, Call: call, Output: o, Return: ret})
		hmu.Unlock()
	}
	nt := int(cfgOr(pl, "tasks", 2))
	per := make([][]plan.Op, nt)
	for _, op := range pl.Ops {
		t := op.T % nt
		if op.K == "add" {
			t = 0
		} else if t == 0 {
			t = 1 % nt
		}
		per[t] = append(per[t], op)
	}
	overlap := 0
	doOp := func(t int, op plan.Op) {
		switch op.K {
		case "add":
			for i := int64(0); i < op.B; i++ {
				id := nextID
				nextID++
				msg, pairs := c20Message(id, op.D)
				hmu.Lock()
				wantPairs[id] = pairs
				hmu.Unlock()
				call := stamp.Add(1)
				cmdc.VerifAdd(msg)
				record(t, c20In{Kind: "add", ID: id}, call, c20Out{})
				env.Count("c20.arrivals", 1)
			}
		case "get":
			url := "/records"
			var q []string
			if op.A >= 0 {
				q = append(q, "count="+strconv.Itoa(int(op.A)))
			}
			if op.S != "" {
				q = append(q, "format="+op.S)
			}
			if len(q) > 0 {
				url += "?" + strings.Join(q, "&")
			}
			req := httptest.NewRequest("GET", url, nil)
			w := httptest.NewRecorder()
			call := stamp.Add(1)
			cmdc.VerifRecordsHandler(w, req)
			o := c20Out{Status: w.Code}
			var entries []string
			body := w.Body.String()
			if op.S == "text" {
				sep := strings.Repeat("=", 80)
				parts := strings.Split(body, sep)
				if len(parts) > 0 && parts[len(parts)-1] == "" {
					parts = parts[:len(parts)-1]
				}
				entries = parts
			} else if w.Code == 200 {
				var resp struct {
					FlowRecords []string `json:"flowRecords"`
				}
				if err := json.Unmarshal([]byte(body), &resp); err != nil {
					env.Violate("response-not-json", "", "GET %s: body is not the documented JSON: %v", url, err)
				}
				entries = resp.FlowRecords
			}
			for _, e := range entries {
				m := seqRe.FindStringSubmatch(e)
				if m == nil {
					o.IDs = append(o.IDs, -1) // an entry that is not a rendered message (e.g. empty)
					continue
				}
				id, _ := strconv.Atoi(m[1])
				o.IDs = append(o.IDs, id)
				// every field of every record appears by name and value
				hmu.Lock()
				pairs := wantPairs[id]
				hmu.Unlock()
				for _, p := range pairs {
					if !strings.Contains(e, "    "+p[0]+": "+p[1]) {
						env.Violate("field-not-rendered", fieldClass(p[0]), "entry of message %d does not show field %s with value %q; entry: %q", id, p[0], p[1], e)
						break
					}
				}
			}
			record(t, c20In{Kind: "get", Count: int(op.A)}, call, o)
			env.Count("c20.queries", 1)
		case "reset":
			req := httptest.NewRequest("POST", "/reset", nil)
			w := httptest.NewRecorder()
			call := stamp.Add(1)
			cmdc.VerifResetHandler(w, req)
			record(t, c20In{Kind: "reset"}, call, c20Out{Status: w.Code})
			env.Count("c20.resets", 1)
		case "bad":
			var w *httptest.ResponseRecorder
			what := ""
			switch op.A {
			case 0:
				what = "GET /records?count=abc"
				w = httptest.NewRecorder()
				cmdc.VerifRecordsHandler(w, httptest.NewRequest("GET", "/records?count=abc", nil))
			case 1:
				what = "GET /records?count=-3"
				w = httptest.NewRecorder()
				cmdc.VerifRecordsHandler(w, httptest.NewRequest("GET", "/records?count=-3", nil))
			case 2:
				what = "GET /records?format=xml"
				w = httptest.NewRecorder()
				cmdc.VerifRecordsHandler(w, httptest.NewRequest("GET", "/records?format=xml", nil))
			case 3:
				what = "POST /records"
				w = httptest.NewRecorder()
				cmdc.VerifRecordsHandler(w, httptest.NewRequest("POST", "/records", nil))
			default:
				what = "GET /reset"
				w = httptest.NewRecorder()
				cmdc.VerifResetHandler(w, httptest.NewRequest("GET", "/reset", nil))
			}
			env.Count("fault.invalid_request", 1)
			if w.Code < 400 || w.Code >= 500 {
				env.Violate("invalid-query-accepted", "", "%s answered %d", what, w.Code)
			}
		}
	}
	env.Go("driver", func() {
		done := make(chan struct{}, nt)
		for t := 0; t < nt; t++ {
			t := t
			env.Go(fmt.Sprintf("t%d", t), func() {
				defer func() { done <- struct{}{} }()
				for _, op := range per[t] {
					doOp(t, op)
				}
			})
		}
		for t := 0; t < nt; t++ {
			Block("join", func() { <-done })
		}
	})
	res := env.Run()
	if res != "done" && out.Trouble == "" {
		env.runEnded(res, out)
		return
	}
	if n := cmdc.VerifLen(); n > cmdc.VerifCap {
		env.Violate("cap", "", "%d entries stored, cap is %d", n, cmdc.VerifCap)
	}
	oraclePhase()
	resLin := porcupine.CheckOperationsTimeout(c20Model(cmdc.VerifCap), history, 20*time.Second)
	switch resLin {
	case porcupine.Illegal:
		var b strings.Builder
		hs := append([]porcupine.Operation(nil), history...)
		sort.Slice(hs, func(i, j int) bool { return hs[i].Call < hs[j].Call })
		m := c20Model(cmdc.VerifCap)
		shown := 0
		for _, h := range hs {
			in := h.Input.(c20In)
			if in.Kind == "add" && in.ID < nextID-30 {
				continue
			}
			if shown < 40 {
				fmt.Fprintf(&b, "[t%d %d..%d %s] ", h.ClientId, h.Call, h.Return, m.DescribeOperation(h.Input, h.Output))
				shown++
			}
		}
		env.Violate("not-linearizable", "", "no order of the operations consistent with real time matches a bounded window of the most recent messages in arrival order: %s", b.String())
	case porcupine.Unknown:
		out.Add("probe.linearizability_check_timed_out", 1)
	}
	for a := range per {
		for _, op := range per[a] {
			if op.K == "get" && len(per[0]) > 0 {
				overlap++
			}
		}
	}
	if prefill >= cmdc.VerifCap-3 {
		out.Add("probe.cap_reached", 1)
	}
	out.Nontrivial = overlap > 0 || prefill >= cmdc.VerifCap-3
	if out.Hash == "" || pl.Mode == "race" {
		out.Hash = fmt.Sprintf("seed-%d", pl.Seed)
	}
	out.Sample = map[string]any{"prefill": prefill, "tasks": nt, "operations": len(pl.Ops), "stored_at_end": cmdc.VerifLen(), "linearizable": string(resLin)}
	_ = http.StatusOK
}

func fieldClass(name string) string {
	for _, sp := range catalog {
		if sp.Name == name {
			return fmt.Sprintf("type%d", sp.Type)
		}
	}
	for _, sp := range catalogUser {
		if sp.Name == name {
			return fmt.Sprintf("type%d", sp.Type)
		}
	}
	return ""
}

var tinyIE *entities.InfoElement

func c20Tiny(id int) (*entities.Message, [][2]string) {
	if tinyIE == nil {
		tinyIE, _ = registry.GetInfoElement("protocolIdentifier", registry.IANAEnterpriseID)
	}
	msg := entities.NewMessage(true)
	msg.SetVersion(10)
	msg.SetSequenceNum(uint32(id))
	set := entities.NewSet(true)
	set.PrepareSet(entities.Data, 256)
	set.AddRecord([]entities.InfoElementWithValue{entities.NewUnsigned8InfoElement(tinyIE, uint8(id))}, 256)
	msg.AddSet(set)
	return msg, nil
}
