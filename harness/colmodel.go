package harness

import (
	"bytes"
	"encoding/binary"
	"fmt"

	"github.com/vmware/go-ipfix/pkg/entities"
	"github.com/vmware/go-ipfix/pkg/registry"

	"verif/oracle/ipfixref"
)

// Reference model of what a collecting process may do with a message, written
// from the statements of C03 / C04 / C17 on top of oracle/ipfixref:
//
//   - a template table keyed by (observation domain, template id);
//   - a template message is valid iff id and field count can be read, every
//     field specifier is complete and, for the decoding mode, acceptable
//     (strict: every element known to the registry and of a supported type);
//     a template that fails after its id was read removes the stored one;
//   - widths: a known element is decoded at the width the registry gives it, an
//     unknown one (keep / drop modes) at the width on the wire;
//   - a data set decodes to the records the stored template defines for the set
//     body, nothing left over except padding shorter than the shortest record.
//
// The set body is "the bytes after the set header"; when the set's length field
// disagrees with the bytes actually received both readings are accepted.

const (
	modeStrict = 0
	modeKeep   = 1
	modeDrop   = 2
)

type mField struct {
	Ent   uint32
	ID    uint16
	Known bool
	Type  entities.IEDataType
	Name  string
	Width uint16 // decode width (65535 = variable)
}

type tkey struct {
	dom uint32
	id  uint16
}

type colModel struct {
	mode  int
	tmpls map[tkey][]mField
}

func newColModel(mode int) *colModel { return &colModel{mode: mode, tmpls: map[tkey][]mField{}} }

type expectation struct {
	Kind   string // "error": must not yield a message; "template"; "data"
	Why    string
	Domain uint32
	ID     uint16
	Fields []mField     // template: fields in wire order; data: template in force
	Alts   [][][][]byte // data: acceptable record lists (alt -> record -> field -> raw value)
	Header ipfixref.Header
}

func (m *colModel) refFields(fs []mField) []ipfixref.Field {
	out := make([]ipfixref.Field, len(fs))
	for i, f := range fs {
		out[i] = ipfixref.Field{ID: f.ID, Ent: f.Ent, Len: f.Width}
	}
	return out
}

// step computes what the collector may do with message b and updates the table.
func (m *colModel) step(b []byte) expectation {
	if len(b) < 20 {
		return expectation{Kind: "error", Why: "shorter than message header + set header"}
	}
	h, _ := ipfixref.ParseHeader(b)
	if h.Version != 10 {
		return expectation{Kind: "error", Why: "version is not 10", Header: h}
	}
	setID := binary.BigEndian.Uint16(b[16:18])
	setLen := int(binary.BigEndian.Uint16(b[18:20]))
	body := b[20:]
	if setID == ipfixref.TemplateSetID {
		if len(body) < 4 {
			return expectation{Kind: "error", Why: "template record header cut short", Header: h}
		}
		id := binary.BigEndian.Uint16(body[0:2])
		count := int(binary.BigEndian.Uint16(body[2:4]))
		key := tkey{h.Domain, id}
		bad := func(why string) expectation {
			delete(m.tmpls, key)
			return expectation{Kind: "error", Why: why, Domain: h.Domain, ID: id, Header: h}
		}
		off := 4
		var fields []mField
		for i := 0; i < count; i++ {
			if len(body) < off+4 {
				return bad(fmt.Sprintf("field specifier %d cut short", i))
			}
			raw := binary.BigEndian.Uint16(body[off : off+2])
			wlen := binary.BigEndian.Uint16(body[off+2 : off+4])
			off += 4
			f := mField{ID: raw & 0x7fff}
			if raw&0x8000 != 0 {
				if len(body) < off+4 {
					return bad(fmt.Sprintf("enterprise number of field %d cut short", i))
				}
				f.Ent = binary.BigEndian.Uint32(body[off : off+4])
				off += 4
			}
			ie, err := registry.GetInfoElementFromID(f.ID, f.Ent)
			if err == nil && ie != nil {
				if !supportedType(ie.DataType) {
					return bad(fmt.Sprintf("field %d: element %s has a data type the library does not support", i, ie.Name))
				}
				f.Known, f.Type, f.Name, f.Width = true, ie.DataType, ie.Name, ie.Len
			} else {
				if m.mode == modeStrict {
					return bad(fmt.Sprintf("field %d: unknown element %d/%d in strict mode", i, f.Ent, f.ID))
				}
				f.Type, f.Width = entities.OctetArray, wlen
			}
			fields = append(fields, f)
		}
		m.tmpls[key] = fields
		return expectation{Kind: "template", Domain: h.Domain, ID: id, Fields: fields, Header: h}
	}
	key := tkey{h.Domain, setID}
	fields, ok := m.tmpls[key]
	if !ok {
		return expectation{Kind: "error", Why: fmt.Sprintf("no template %d in domain %d", setID, h.Domain), Domain: h.Domain, ID: setID, Header: h}
	}
	e := expectation{Kind: "data", Domain: h.Domain, ID: setID, Fields: fields, Header: h}
	bodies := [][]byte{body}
	if setLen >= 4 && setLen-4 < len(body) {
		bodies = append(bodies, body[:setLen-4])
	}
	ref := m.refFields(fields)
	var whys []string
	for _, bd := range bodies {
		recs, _, err := ipfixref.DecodeRecords(bd, ref)
		if err != nil {
			whys = append(whys, err.Error())
			continue
		}
		e.Alts = append(e.Alts, recs)
	}
	if len(e.Alts) == 0 {
		e.Kind = "error"
		e.Why = "set body does not decode under the template in force: " + fmt.Sprint(whys)
	}
	return e
}

// ---- delivered messages -----------------------------------------------------

type dField struct {
	Ent  uint32
	ID   uint16
	Name string
	Type entities.IEDataType
	Len  uint16
	Wire []byte
	OK   bool
}

type dMsg struct {
	Domain     uint32
	Seq        uint32
	ExportTime uint32
	Length     uint16
	Addr       string
	IsTemplate bool
	SetID      uint16
	Records    [][]dField
}

func captureMsg(msg *entities.Message) dMsg {
	d := dMsg{Domain: msg.GetObsDomainID(), Seq: msg.GetSequenceNum(), ExportTime: msg.GetExportTime(), Length: msg.GetMessageLen(), Addr: msg.GetExportAddress()}
	set := msg.GetSet()
	if set == nil {
		return d
	}
	d.IsTemplate = set.GetSetType() == entities.Template
	for _, rec := range set.GetRecords() {
		d.SetID = rec.GetTemplateID()
		var fs []dField
		for _, el := range rec.GetOrderedElementList() {
			ie := el.GetInfoElement()
			f := dField{Ent: ie.EnterpriseId, ID: ie.ElementId, Name: ie.Name, Type: ie.DataType, Len: ie.Len}
			if !d.IsTemplate {
				f.Wire, f.OK = wireOf(el)
				f.Wire = append([]byte(nil), f.Wire...)
			}
			fs = append(fs, f)
		}
		d.Records = append(d.Records, fs)
	}
	return d
}

// canonical maps raw wire bytes to the bytes wireOf yields for the value the
// bytes denote (booleans: 1 is true, anything else false).
func canonical(t entities.IEDataType, raw []byte) []byte {
	if t == entities.Boolean && len(raw) == 1 {
		if raw[0] == 1 {
			return []byte{1}
		}
		return []byte{2}
	}
	return raw
}

// matchData compares a delivered data message with one acceptable record list.
func matchData(mode int, fields []mField, alt [][][]byte, d dMsg) string {
	if len(d.Records) != len(alt) {
		return fmt.Sprintf("%d records delivered, the set body holds %d", len(d.Records), len(alt))
	}
	for ri, rec := range alt {
		var want []int // indices of fields that must be delivered
		for fi, f := range fields {
			if mode == modeDrop && !f.Known {
				continue
			}
			want = append(want, fi)
		}
		got := d.Records[ri]
		if len(got) != len(want) {
			return fmt.Sprintf("record %d: %d fields delivered, template defines %d", ri, len(got), len(want))
		}
		for k, fi := range want {
			f := fields[fi]
			g := got[k]
			if g.Ent != f.Ent || g.ID != f.ID {
				return fmt.Sprintf("record %d field %d: delivered element %d/%d, template says %d/%d", ri, k, g.Ent, g.ID, f.Ent, f.ID)
			}
			exp := canonical(f.Type, rec[fi])
			if !g.OK || !bytes.Equal(g.Wire, exp) {
				return fmt.Sprintf("record %d field %d (%s %d/%d type %d width %d): delivered % x, set body has % x", ri, k, f.Name, f.Ent, f.ID, f.Type, f.Width, head(g.Wire, 20), head(exp, 20))
			}
		}
	}
	return ""
}

// matchTemplate compares a delivered template message with the wire's fields.
func matchTemplate(fields []mField, id uint16, d dMsg) string {
	if len(d.Records) != 1 {
		return fmt.Sprintf("%d template records delivered", len(d.Records))
	}
	if d.SetID != id {
		return fmt.Sprintf("delivered template id %d, wire %d", d.SetID, id)
	}
	got := d.Records[0]
	if len(got) != len(fields) {
		return fmt.Sprintf("%d fields delivered, wire has %d", len(got), len(fields))
	}
	for i, f := range fields {
		if got[i].Ent != f.Ent || got[i].ID != f.ID {
			return fmt.Sprintf("field %d: delivered %d/%d, wire %d/%d", i, got[i].Ent, got[i].ID, f.Ent, f.ID)
		}
	}
	return ""
}
