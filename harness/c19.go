package harness

import (
	"encoding/binary"
	"fmt"
	"math/rand/v2"
	"net"
	"time"

	"github.com/IBM/sarama"
	"google.golang.org/protobuf/proto"

	"github.com/vmware/go-ipfix/pkg/entities"
	"github.com/vmware/go-ipfix/pkg/kafka/consumer"
	"github.com/vmware/go-ipfix/pkg/kafka/producer"
	convtest "github.com/vmware/go-ipfix/pkg/kafka/producer/convertor/test"
	pb "github.com/vmware/go-ipfix/pkg/kafka/producer/protobuf"
	"github.com/vmware/go-ipfix/pkg/registry"

	"verif/sim/plan"
)

// C19 — Kafka publication: one framed message per data record, in order.
//
// feeder -> channel -> real KafkaProducer.PublishIPFIXMessages -> simbroker, a stub
// sarama.AsyncProducer (the library's own seam SetSaramaProducer) whose input side is
// consumed by a broker task that may stall and that encodes a message's value only
// later (as the real asynchronous producer does); acks on Successes() are delayed.
// Plan ops: {K:"msg", A:kind (0 template, 1 data), B:records, C:seed, D:v6}; {K:"stall", A:after n
// broker receives, B:ms}. Cfg: schema (1|2), successes, lazy (0 encode at receive, 1 after the next
// receive, 2 at the end).

func init() {
	register(&Prop{
		ID: "C19", Gen: genC19, Run: runC19, Quick: 1500, Thorough: 300000,
		Real: []string{"pkg/kafka/producer: PublishIPFIXMessages, SendFlowMessage (length prefix + proto.Marshal), both shipped convertors (FlowType1, FlowType2)", "pkg/kafka/consumer DecodeAndPrintMsg", "generated protobuf types"},
		Stub: []string{"Kafka broker and sarama's asynchronous producer (simbroker behind the library's SetSaramaProducer seam: stalls its input, encodes values late, delays acks)", "wall clock (synctest bubble)"},
		Rule: "streams of template and data messages with 0..5 records of seeded values (IPv4 and IPv6, short and long strings) through the real publish path into a broker stub that stalls and encodes late; a sixth of the plans run two PublishIPFIXMessages loops on one producer (count, per-stream order, a publisher that never returns); published payloads compared with the records (count, order, topic, 4-byte length prefix, protobuf fields, consumer-side decode); non-trivial = at least 2 data records published; distinct = distinct event-log hash",
	})
}

func genC19(seed uint64, tier string) *plan.Plan {
	r := rand.New(rand.NewPCG(seed, 0xc19))
	pl := &plan.Plan{Cfg: map[string]int64{}}
	pl.Cfg["schema"] = int64(1 + r.IntN(2))
	pl.Cfg["successes"] = int64(r.IntN(2))
	pl.Cfg["lazy"] = int64(r.IntN(3))
	if r.IntN(5) == 0 {
		pl.Cfg["fail_every"] = int64(2 + r.IntN(4))
	}
	n := 2 + r.IntN(10)
	if r.IntN(6) == 0 {
		// two collecting processes feed one producer: a PublishIPFIXMessages loop per message channel
		pl.Cfg["pubs"] = 2
		pl.Cfg["successes"] = int64(min(1, r.IntN(4)))
		for i := 0; i < n+2; i++ {
			pl.Ops = append(pl.Ops, plan.Op{K: "msg", A: 1, B: int64(1 + r.IntN(4)), C: int64(r.Uint64() >> 1), D: int64(r.IntN(2)), T: r.IntN(2) * 100})
			if r.IntN(4) == 0 {
				pl.Ops = append(pl.Ops, plan.Op{K: "stall", A: int64(r.IntN(8)), B: int64(1 + r.IntN(50))})
			}
		}
		genSchedule(r, pl, 5, 3000)
		return pl
	}
	for i := 0; i < n; i++ {
		if r.IntN(5) == 0 {
			pl.Ops = append(pl.Ops, plan.Op{K: "msg", A: 0, C: int64(r.Uint64() >> 1)})
		} else {
			op := plan.Op{K: "msg", A: 1, B: int64(r.IntN(6)), C: int64(r.Uint64() >> 1), D: int64(r.IntN(2))}
			if op.B > 0 && r.IntN(8) == 0 {
				op.T = 1 + r.IntN(int(op.B)) // one record of the message cannot be encoded (T-1 = its index)
			}
			if r.IntN(8) == 0 {
				op.S = "bare"
			}
			if r.IntN(4) == 0 {
				// one of two recurring exporters; its counter: large, small, wrapped, restarted
				op.N = []int64{int64(1 + r.IntN(2)), []int64{4294967295, 4294967290, 0, 1, 5, 1000, 70000}[r.IntN(7)]}
			}
			pl.Ops = append(pl.Ops, op)
		}
		if r.IntN(4) == 0 {
			pl.Ops = append(pl.Ops, plan.Op{K: "stall", A: int64(r.IntN(8)), B: int64(1 + r.IntN(500))})
		}
	}
	genSchedule(r, pl, 3, 3000)
	return pl
}

// simBroker implements sarama.AsyncProducer.
type simBroker struct {
	input     chan *sarama.ProducerMessage
	successes chan *sarama.ProducerMessage
	errors    chan *sarama.ProducerError
}

func (b *simBroker) AsyncClose()                               {}
func (b *simBroker) Close() error                              { return nil }
func (b *simBroker) Input() chan<- *sarama.ProducerMessage     { return b.input }
func (b *simBroker) Successes() <-chan *sarama.ProducerMessage { return b.successes }
func (b *simBroker) Errors() <-chan *sarama.ProducerError      { return b.errors }
func (b *simBroker) IsTransactional() bool                     { return false }
func (b *simBroker) TxnStatus() sarama.ProducerTxnStatusFlag   { return 0 }
func (b *simBroker) BeginTxn() error                           { return nil }
func (b *simBroker) CommitTxn() error                          { return nil }
func (b *simBroker) AbortTxn() error                           { return nil }
func (b *simBroker) AddOffsetsToTxn(map[string][]*sarama.PartitionOffsetMetadata, string) error {
	return nil
}
func (b *simBroker) AddMessageToTxn(*sarama.ConsumerMessage, string, *string) error { return nil }

type c19Rec struct {
	srcIP, dstIP               string
	srcPort, dstPort           uint16
	proto                      uint8
	start, end                 uint32
	pktTot, octTot, pktD, octD uint64
	srcPod, dstPod, srcNS      string
	exportTime, seq, dom       uint32
	exportAddr                 string
	// poison: the source pod name is not valid UTF-8, so the record has no protobuf encoding; what
	// (if anything) is published for it is not judged, its neighbours are
	poison bool
}

// bare: a message assembled by the application itself rather than by a collecting process - header
// fields left at zero, no export address - whose records carry no address elements; about half of
// them hold nothing but zeros and empty strings (every mapped field at its default).
func c19Data(seed int64, nrec int, v6 bool, poisonAt int, bare bool, hdr ...int64) (*entities.Message, []c19Rec) {
	r := rand.New(rand.NewPCG(uint64(seed), 0x19))
	A, I := registry.AntreaEnterpriseID, registry.IANAEnterpriseID
	msg := entities.NewMessage(true)
	msg.SetVersion(10)
	et, sq, dom := r.Uint32(), r.Uint32(), r.Uint32()
	addr := fmt.Sprintf("10.9.%d.%d", r.IntN(250), r.IntN(250))
	if v6 {
		addr = fmt.Sprintf("fd00::%x", 1+r.IntN(60000))
	}
	if len(hdr) == 2 && !bare {
		// the message comes from an exporter that sent before (same address, same observation domain):
		// its sequence number is whatever that exporter's counter says - smaller than last time after a
		// restart or a wrap-around
		hr := rand.New(rand.NewPCG(uint64(hdr[0]), 0x1d))
		dom = hr.Uint32()
		addr = fmt.Sprintf("10.8.%d.%d", hr.IntN(250), hr.IntN(250))
		if v6 {
			addr = fmt.Sprintf("fd08::%x", 1+hr.IntN(60000))
		}
		sq = uint32(hdr[1])
	}
	if bare {
		et, sq, dom, addr = 0, 0, 0, ""
	} else {
		msg.SetExportAddress(addr)
	}
	msg.SetExportTime(et)
	msg.SetSequenceNum(sq)
	msg.SetObsDomainID(dom)
	set := entities.NewSet(true)
	set.PrepareSet(entities.Data, 256)
	var recs []c19Rec
	str := func(max int) string {
		n := r.IntN(max + 1)
		b := make([]byte, n)
		for i := range b {
			b[i] = byte('a' + r.IntN(26))
		}
		return string(b)
	}
	// boundary values now and then: zero, one, the largest
	u32 := func() uint32 {
		switch r.IntN(8) {
		case 0:
			return 0
		case 1:
			return []uint32{1, 0xffffffff}[r.IntN(2)]
		}
		return r.Uint32()
	}
	u64 := func() uint64 {
		switch r.IntN(8) {
		case 0:
			return 0
		case 1:
			return []uint64{1, 0xffffffffffffffff}[r.IntN(2)]
		}
		return r.Uint64()
	}
	for i := 0; i < nrec; i++ {
		c := c19Rec{srcPort: uint16(u32()), dstPort: uint16(u32()), proto: uint8(u32()), start: u32(), end: u32(),
			pktTot: u64(), octTot: u64(), pktD: u64() % 1000, octD: u64() % 100000,
			srcPod: str([]int{0, 5, 60, 300}[r.IntN(4)]), dstPod: str(20), srcNS: str(10), exportTime: et, seq: sq, dom: dom, exportAddr: addr}
		if r.IntN(40) == 0 {
			// the one record of a message of nearly the greatest length: its Kafka message is longer than
			// the record was (addresses as text, a tag per field)
			b := make([]byte, 65400-r.IntN(30))
			for i := range b {
				b[i] = byte('a' + (i*7+len(b))%26)
			}
			c.srcPod = string(b)
		}
		if i == poisonAt {
			c.srcPod = "\xff\xfe" + c.srcPod
			c.poison = true
		}
		var els []entities.InfoElementWithValue
		if bare && i != poisonAt {
			if r.IntN(2) == 0 {
				c = c19Rec{}
			}
			c.srcIP, c.dstIP = "", ""
		} else if v6 {
			s, d := net.ParseIP(fmt.Sprintf("2001:db8::%x", 1+r.IntN(60000))), net.ParseIP(fmt.Sprintf("2001:db8:1::%x", 1+r.IntN(60000)))
			if r.IntN(5) == 0 {
				// network addresses: nothing after the first 32 bits - the same leading octets as some
				// IPv4 address of the same stream (dual-stack clusters have both)
				k := r.IntN(3)
				s, d = net.ParseIP(fmt.Sprintf("a4d:%x::", k)), net.ParseIP(fmt.Sprintf("ac10:%x::", k))
			}
			c.srcIP, c.dstIP = s.String(), d.String()
			els = append(els, entities.NewIPAddressInfoElement(ie("sourceIPv6Address", I), s), entities.NewIPAddressInfoElement(ie("destinationIPv6Address", I), d))
		} else {
			s, d := net.IPv4(10, byte(r.Uint32()), byte(r.Uint32()), byte(r.Uint32())).To4(), net.IPv4(172, byte(r.Uint32()), byte(r.Uint32()), byte(r.Uint32())).To4()
			if r.IntN(5) == 0 {
				k := r.IntN(3)
				s, d = net.IPv4(10, 77, 0, byte(k)).To4(), net.IPv4(172, 16, 0, byte(k)).To4()
			}
			c.srcIP, c.dstIP = s.String(), d.String()
			// records built in the same program (net.ParseIP, net.IPv4) carry IPv4 addresses in
			// their 16-byte form; decoded ones in the 4-byte form: both are the same address
			switch r.IntN(4) {
			case 0:
				s = s.To16()
			case 1:
				s, d = s.To16(), d.To16()
			}
			els = append(els, entities.NewIPAddressInfoElement(ie("sourceIPv4Address", I), s), entities.NewIPAddressInfoElement(ie("destinationIPv4Address", I), d))
		}
		els = append(els,
			entities.NewUnsigned16InfoElement(ie("sourceTransportPort", I), c.srcPort),
			entities.NewUnsigned16InfoElement(ie("destinationTransportPort", I), c.dstPort),
			entities.NewUnsigned8InfoElement(ie("protocolIdentifier", I), c.proto),
			entities.NewDateTimeSecondsInfoElement(ie("flowStartSeconds", I), c.start),
			entities.NewDateTimeSecondsInfoElement(ie("flowEndSeconds", I), c.end),
			entities.NewUnsigned64InfoElement(ie("packetTotalCount", I), c.pktTot),
			entities.NewUnsigned64InfoElement(ie("octetTotalCount", I), c.octTot),
			entities.NewUnsigned64InfoElement(ie("packetDeltaCount", I), c.pktD),
			entities.NewUnsigned64InfoElement(ie("octetDeltaCount", I), c.octD),
			entities.NewStringInfoElement(ie("sourcePodName", A), c.srcPod),
			entities.NewStringInfoElement(ie("destinationPodName", A), c.dstPod),
			entities.NewStringInfoElement(ie("sourcePodNamespace", A), c.srcNS),
		)
		// elements the schemas have no field for (a mediator's "original exporter" elements among
		// them): they do not show in the payload, and they leave everything else alone
		if r.IntN(3) == 0 {
			if r.IntN(2) == 0 {
				els = append(els, entities.NewUnsigned32InfoElement(ie("originalObservationDomainId", I), 1+r.Uint32()))
			}
			if r.IntN(2) == 0 {
				els = append(els, entities.NewIPAddressInfoElement(ie("originalExporterIPv4Address", I), net.IPv4(192, 0, 2, byte(1+r.IntN(200))).To4()))
			}
			if r.IntN(2) == 0 {
				els = append(els, entities.NewIPAddressInfoElement(ie("originalExporterIPv6Address", I), net.ParseIP(fmt.Sprintf("2001:db8:9::%x", 1+r.IntN(60000)))))
			}
			if r.IntN(2) == 0 {
				els = append(els, entities.NewUnsigned8InfoElement(ie("ipClassOfService", I), uint8(r.Uint32())))
			}
		}
		if r.IntN(6) == 0 {
			// ... and an element no registry knows, as a collecting process in "keep unknown" mode hands
			// it over: a nameless octet array - anywhere in the record, in front of mapped fields too
			unk := entities.NewOctetArrayInfoElement(entities.NewInfoElement("", uint16(20000+r.IntN(100)), entities.OctetArray, 12345, 4), []byte{1, 2, 3, 4})
			at := r.IntN(len(els) + 1)
			els = append(els[:at], append([]entities.InfoElementWithValue{unk}, els[at:]...)...)
		}
		set.AddRecord(els, 256)
		recs = append(recs, c)
	}
	msg.AddSet(set)
	return msg, recs
}

func c19Template(seed int64) *entities.Message {
	msg := entities.NewMessage(true)
	msg.SetVersion(10)
	set := entities.NewSet(true)
	set.PrepareSet(entities.Template, 256)
	el, _ := entities.DecodeAndCreateInfoElementWithValue(ie("sourceTransportPort", registry.IANAEnterpriseID), nil)
	set.AddRecord([]entities.InfoElementWithValue{el}, 256)
	msg.AddSet(set)
	return msg
}

func runC19(pl *plan.Plan, out *plan.Outcome) {
	env := newEnv(pl, out, keepLogFlag)
	schema := int(cfgOr(pl, "schema", 1))
	lazy := int(cfgOr(pl, "lazy", 0))
	successes := cfgOr(pl, "successes", 0) == 1
	conv := convtest.NewFlowType1Convertor()
	if schema == 2 {
		conv = convtest.NewFlowType2Convertor()
	}
	const topic = "verif-topic"
	kp, err := producer.NewKafkaProducer(producer.ProducerInput{KafkaBrokers: []string{"10.0.0.5:9092"}, KafkaVersion: sarama.DefaultVersion, KafkaTopic: topic,
		KafkaLogSuccesses: successes, ProtoSchemaConvertor: conv})
	if err != nil {
		out.Trouble = err.Error()
		return
	}
	br := &simBroker{input: make(chan *sarama.ProducerMessage), successes: make(chan *sarama.ProducerMessage), errors: make(chan *sarama.ProducerError, 64)}
	failEvery := int(cfgOr(pl, "fail_every", 0)) // the broker reports every n-th publication as failed (Errors channel)
	kp.SetSaramaProducer(br)
	stalls := map[int]time.Duration{}
	var msgs []plan.Op
	for _, op := range pl.Ops {
		switch op.K {
		case "msg":
			msgs = append(msgs, op)
		case "stall":
			stalls[int(op.A)] = time.Duration(op.B) * time.Millisecond
		}
	}
	if cfgOr(pl, "pubs", 1) == 2 {
		runC19Two(env, pl, out, kp, br, msgs, stalls, schema, successes)
		return
	}
	var expected []c19Rec
	msgCh := make(chan *entities.Message)
	type held struct {
		pm      *sarama.ProducerMessage
		payload []byte
		encoded bool
	}
	var got []*held
	encode := func(h *held) {
		if !h.encoded {
			b, err := h.pm.Value.Encode()
			if err != nil {
				env.Violate("value-encode-error", "", "Value.Encode failed: %v", err)
			}
			h.payload = append([]byte(nil), b...)
			h.encoded = true
		}
	}
	publishDone := make(chan struct{})
	env.Go("publisher", func() {
		defer close(publishDone)
		kp.PublishIPFIXMessages(msgCh)
	})
	env.Go("feeder", func() {
		for _, op := range msgs {
			var m *entities.Message
			if op.A == 0 {
				m = c19Template(op.C)
			} else {
				var recs []c19Rec
				m, recs = c19Data(op.C, int(op.B), op.D == 1, int(op.T)-1, op.S == "bare", op.N...)
				expected = append(expected, recs...)
			}
			Block("feed", func() { msgCh <- m })
		}
		close(msgCh)
	})
	env.Go("broker", func() {
		n := 0
		for {
			var pm *sarama.ProducerMessage
			stop := false
			Block("broker-recv", func() {
				select {
				case pm = <-br.input:
				case <-publishDone:
					stop = true
				}
			})
			if stop {
				break
			}
			if d, ok := stalls[n]; ok {
				env.Count("fault.broker_stall", 1)
				env.Sleep(d)
			}
			n++
			h := &held{pm: pm}
			got = append(got, h)
			switch lazy {
			case 0:
				encode(h)
			case 1:
				if len(got) >= 2 {
					encode(got[len(got)-2])
				}
			}
			if failEvery > 0 && !successes && n%failEvery == 0 {
				// the publication failed: reported on Errors(), which an application may read or not;
				// the records that follow are handed over all the same
				select {
				case br.errors <- &sarama.ProducerError{Msg: pm, Err: sarama.ErrOutOfBrokers}:
					env.Count("fault.publication_reported_failed", 1)
				default:
				}
				continue
			}
			if successes {
				if lazy > 0 {
					env.Count("fault.delayed_ack", 1)
					env.Sleep(time.Duration(1+n%7) * time.Millisecond)
				}
				Block("ack", func() { br.successes <- pm })
			}
		}
		for _, h := range got {
			encode(h)
		}
	})
	res := env.Run()
	if res == "stuck" && out.Trouble == "" {
		// the broker takes every message it is offered and acknowledges it at once (when asked to),
		// its channels are unbuffered - a legal ChannelBufferSize of 0: a publisher that cannot go on
		// is waiting for something that will never come
		env.Violate("publish-never-returns", "", "PublishIPFIXMessages cannot go on (acknowledgements %v): %d Kafka messages published, the publisher waits for ever", successes, len(got))
		out.Hash = fmt.Sprintf("%s-stuck", out.Hash)
		return
	}
	if res != "done" && out.Trouble == "" {
		env.runEnded(res, out)
		return
	}
	// ---- oracle ----
	// A record that has no protobuf encoding may be dropped or published in some altered form; the
	// published stream is aligned with the encodable records around it.
	nPoison := 0
	for _, e := range expected {
		if e.poison {
			nPoison++
		}
	}
	out.Add("fault.record_without_protobuf_encoding", int64(nPoison))
	if len(got) > len(expected) || len(got) < len(expected)-nPoison {
		env.Violate("count", "", "%d data records were handed to the producer (%d of them cannot be encoded), %d Kafka messages were published", len(expected), nPoison, len(got))
	}
	if nPoison > 0 {
		isOwn := func(h *held, e c19Rec) bool {
			p := h.payload
			if len(p) < 4 {
				return true
			}
			var m proto.Message = &pb.FlowType1{}
			if schema == 2 {
				m = &pb.FlowType2{}
			}
			if err := proto.Unmarshal(p[4:], m); err != nil {
				return true
			}
			g := m.(interface {
				GetSrcIP() string
				GetSrcPort() uint32
				GetTimeFlowStartInSecs() uint32
				GetPacketsTotal() uint64
			})
			return g.GetSrcIP() == e.srcIP && g.GetSrcPort() == uint32(e.srcPort) && g.GetTimeFlowStartInSecs() == e.start && g.GetPacketsTotal() == e.pktTot
		}
		var got2 []*held
		var exp2 []c19Rec
		j := 0
		for _, e := range expected {
			if e.poison {
				if j < len(got) && len(got)-j > countEncodable(expected, e) && isOwn(got[j], e) {
					j++ // something was published for it: not judged
				}
				continue
			}
			exp2 = append(exp2, e)
			if j < len(got) {
				got2 = append(got2, got[j])
				j++
			}
		}
		got, expected = got2, exp2
	}
	// one consumer (and one schema message) for the whole stream, as a real consumer has
	var consumerMsg proto.Message = &pb.FlowType1{}
	if schema == 2 {
		consumerMsg = &pb.FlowType2{}
	}
	kc := consumer.NewKafkaConsumer(consumer.ConsumerInput{KafkaTopic: topic, MsgDelimitWithLen: true, KafkaProtoSchema: consumerMsg})
	for i := 0; i < len(got) && i < len(expected); i++ {
		h, e := got[i], expected[i]
		if h.pm.Topic != topic {
			env.Violate("topic", "", "message %d published on topic %q", i, h.pm.Topic)
		}
		p := h.payload
		if len(p) < 4 {
			env.Violate("frame", "", "message %d payload is %d bytes", i, len(p))
			continue
		}
		if l := int(binary.BigEndian.Uint32(p[:4])); l != len(p)-4 {
			env.Violate("frame", "length-prefix", "message %d: length prefix says %d, %d bytes follow", i, l, len(p)-4)
			continue
		}
		type flow interface {
			GetTimeReceived() uint32
			GetSequenceNumber() uint32
			GetObsDomainID() uint32
			GetExportAddress() string
			GetSrcIP() string
			GetDstIP() string
			GetSrcPort() uint32
			GetDstPort() uint32
			GetProto() uint32
			GetTimeFlowStartInSecs() uint32
			GetTimeFlowEndInSecs() uint32
			GetPacketsTotal() uint64
			GetBytesTotal() uint64
			GetPacketsDelta() uint64
			GetBytesDelta() uint64
			GetSrcPodName() string
			GetDstPodName() string
			GetSrcPodNamespace() string
		}
		var f flow
		var m proto.Message
		if schema == 2 {
			x := &pb.FlowType2{}
			f, m = x, x
		} else {
			x := &pb.FlowType1{}
			f, m = x, x
		}
		if err := proto.Unmarshal(p[4:], m); err != nil {
			env.Violate("protobuf", "", "message %d does not decode: %v", i, err)
			continue
		}
		chk := func(name string, got, want any) {
			if fmt.Sprint(got) != fmt.Sprint(want) {
				env.Violate("field", name, "message %d (record %d of the stream): %s = %v, the record has %v", i, i, name, got, want)
			}
		}
		chk("TimeReceived", f.GetTimeReceived(), e.exportTime)
		chk("SequenceNumber", f.GetSequenceNumber(), e.seq)
		chk("ObsDomainID", f.GetObsDomainID(), e.dom)
		chk("ExportAddress", f.GetExportAddress(), e.exportAddr)
		chk("SrcIP", f.GetSrcIP(), e.srcIP)
		chk("DstIP", f.GetDstIP(), e.dstIP)
		chk("SrcPort", f.GetSrcPort(), e.srcPort)
		chk("DstPort", f.GetDstPort(), e.dstPort)
		chk("Proto", f.GetProto(), e.proto)
		chk("TimeFlowStartInSecs", f.GetTimeFlowStartInSecs(), e.start)
		chk("TimeFlowEndInSecs", f.GetTimeFlowEndInSecs(), e.end)
		chk("PacketsTotal", f.GetPacketsTotal(), e.pktTot)
		chk("BytesTotal", f.GetBytesTotal(), e.octTot)
		chk("PacketsDelta", f.GetPacketsDelta(), e.pktD)
		chk("BytesDelta", f.GetBytesDelta(), e.octD)
		chk("SrcPodName", f.GetSrcPodName(), e.srcPod)
		chk("DstPodName", f.GetDstPodName(), e.dstPod)
		chk("SrcPodNamespace", f.GetSrcPodNamespace(), e.srcNS)
		if err := kc.DecodeAndPrintMsg(&sarama.ConsumerMessage{Topic: topic, Value: p}); err != nil {
			env.Violate("consumer-decode", "", "message %d: the consumer-side decoder rejects the payload: %v", i, err)
		} else if !proto.Equal(consumerMsg, m) {
			// the consumer must recover exactly the field values the payload carries
			env.Violate("consumer-decode", "values", "message %d: the consumer-side decoder recovered %v, the payload carries %v", i, consumerMsg, m)
		}
		if len(out.Violations) > 0 {
			break
		}
	}
	out.Add("c19.records", int64(len(expected)))
	out.Add("c19.published", int64(len(got)))
	out.Nontrivial = len(expected) >= 2
	out.Sample = map[string]any{"schema": schema, "lazy_encode": lazy, "successes": successes, "messages": len(msgs), "records": len(expected), "published": len(got)}
}

// countEncodable: how many encodable records follow e in the stream (e is identified by its values).
func countEncodable(all []c19Rec, e c19Rec) int {
	n := 0
	after := false
	for _, x := range all {
		if after && !x.poison {
			n++
		}
		if x == e {
			after = true
		}
	}
	return n
}

// runC19Two: two message channels, a PublishIPFIXMessages loop on each, one producer. Every record of
// either stream is published exactly once, and the records of one stream appear in their order.
func runC19Two(env *Env, pl *plan.Plan, out *plan.Outcome, kp *producer.KafkaProducer, br *simBroker, msgs []plan.Op, stalls map[int]time.Duration, schema int, successes bool) {
	keyOf := func(e c19Rec) string {
		return fmt.Sprintf("%d/%d/%s/%s/%d/%d/%d/%d/%d/%d", e.dom, e.seq, e.srcIP, e.dstIP, e.srcPort, e.dstPort, e.start, e.end, e.pktTot, e.octTot)
	}
	var expected [2][]string
	var chs [2]chan *entities.Message
	done := make(chan struct{}, 2)
	for p := 0; p < 2; p++ {
		p := p
		chs[p] = make(chan *entities.Message)
		env.Go(fmt.Sprintf("publisher%d", p), func() {
			kp.PublishIPFIXMessages(chs[p])
			done <- struct{}{}
		})
		env.Go(fmt.Sprintf("feeder%d", p), func() {
			for _, op := range msgs {
				if op.T/100 != p {
					continue
				}
				m, recs := c19Data(op.C, int(op.B), op.D == 1, -1, false)
				for _, e := range recs {
					expected[p] = append(expected[p], keyOf(e))
				}
				Block("feed", func() { chs[p] <- m })
			}
			close(chs[p])
		})
	}
	allDone := make(chan struct{})
	env.Go("join", func() {
		Block("join", func() { <-done })
		Block("join", func() { <-done })
		close(allDone)
	})
	var got []string
	env.Go("broker", func() {
		n := 0
		for {
			var pm *sarama.ProducerMessage
			stop := false
			Block("broker-recv", func() {
				select {
				case pm = <-br.input:
				case <-allDone:
					stop = true
				}
			})
			if stop {
				return
			}
			if d, ok := stalls[n]; ok {
				env.Count("fault.broker_stall", 1)
				env.Sleep(d)
			}
			n++
			b, err := pm.Value.Encode()
			key := "undecodable"
			if err == nil && len(b) >= 4 {
				var m proto.Message = &pb.FlowType1{}
				if schema == 2 {
					m = &pb.FlowType2{}
				}
				if proto.Unmarshal(b[4:], m) == nil {
					f := m.(interface {
						GetSequenceNumber() uint32
						GetObsDomainID() uint32
						GetSrcIP() string
						GetDstIP() string
						GetSrcPort() uint32
						GetDstPort() uint32
						GetTimeFlowStartInSecs() uint32
						GetTimeFlowEndInSecs() uint32
						GetPacketsTotal() uint64
						GetBytesTotal() uint64
					})
					key = fmt.Sprintf("%d/%d/%s/%s/%d/%d/%d/%d/%d/%d", f.GetObsDomainID(), f.GetSequenceNumber(), f.GetSrcIP(), f.GetDstIP(), f.GetSrcPort(), f.GetDstPort(), f.GetTimeFlowStartInSecs(), f.GetTimeFlowEndInSecs(), f.GetPacketsTotal(), f.GetBytesTotal())
				}
			}
			got = append(got, key)
			if successes {
				Block("ack", func() {
					select {
					case br.successes <- pm:
					case <-allDone:
					}
				})
			}
		}
	})
	res := env.Run()
	total := len(expected[0]) + len(expected[1])
	if res == "stuck" {
		env.Violate("publish-never-returns", "two-publishers", "two PublishIPFIXMessages loops on one producer (acknowledgements %v): %d records handed over, %d published, and the run cannot go on: a publisher waits for ever", successes, total, len(got))
		out.Hash = fmt.Sprintf("%s-stuck", out.Hash)
	} else if res != "done" && out.Trouble == "" {
		env.runEnded(res, out)
		return
	}
	if res == "done" && len(got) != total {
		env.Violate("count", "two-publishers", "%d data records were handed to the producer by two publishers, %d Kafka messages were published", total, len(got))
	}
	for p := 0; p < 2; p++ {
		// the stream's records, in order, among what was published
		j := 0
		for _, k := range got {
			if j < len(expected[p]) && k == expected[p][j] {
				j++
			}
		}
		if res == "done" && j != len(expected[p]) {
			env.Violate("order", "two-publishers", "publisher %d: record %d of its stream is not published after the %d before it (published %d messages in all)", p, j, j, len(got))
		}
	}
	out.Add("c19.two_publishers", 1)
	out.Nontrivial = len(expected[0]) > 0 && len(expected[1]) > 0
	out.Sample = map[string]any{"member": "two publishers", "records": total, "acks": successes}
}
