package harness

import (
	"encoding/hex"
	"math/rand/v2"
	"time"

	"github.com/vmware/go-ipfix/pkg/collector"
	"github.com/vmware/go-ipfix/pkg/entities"
	"github.com/vmware/go-ipfix/pkg/verifsim/simnet"

	"verif/oracle/ipfixref"
	"verif/sim/plan"
)

// C11 — TCP framing: same messages however the byte stream is segmented.
//
// Plan ops: {K:"msg", T:conn, X:hex, S:kind} (conn 0: the stream under test, conn 1: a
// well-behaved neighbour); {K:"cuts", N:[len1, delay1_ns, len2, delay2_ns, ...]} how the
// concatenation of conn 0's messages is delivered; {K:"reads", N:[sizes]} short reads
// at the collector's socket; {K:"trunc", A:n, B:1 at once / 0 two hours later} client closes after n bytes of the stream.

func init() {
	register(&Prop{
		ID: "C11", Gen: genC11, Run: runC11, Quick: 2500, Thorough: 500000,
		Real: []string{"pkg/collector TCP server path: Start, accept loop, handleTCPClient reader goroutine (Peek/ReadFull framing), decodePacket, connection close on error", "pkg/entities, pkg/registry"},
		Stub: []string{"OS sockets / kernel TCP (simnet stream: reliable ordered byte pipe, plan-chosen segmentation, delays and short reads)", "wall clock (synctest bubble)"},
		Rule: "a stream of 1-12 messages (valid templates/data, at most one undecodable at a seeded position) delivered in seeded pieces (single bytes, cuts inside the 4-byte length prefix, inside headers, coalesced messages) with delays and short reads, next to a well-behaved second connection; non-trivial = at least 2 cuts that do not fall on message boundaries; distinct = distinct event-log hash",
	})
}

func genC11(seed uint64, tier string) *plan.Plan {
	r := rand.New(rand.NewPCG(seed, 0xc11))
	pl := &plan.Plan{Cfg: map[string]int64{}}
	pl.Cfg["mode"] = int64(r.IntN(3))
	o := tmplOpts{user: true, maxFields: 1 + r.IntN(6)}
	hdr := func() ipfixref.Header { return ipfixref.Header{ExportTime: r.Uint32(), Sequence: r.Uint32()} }
	n := 1 + r.IntN(12)
	badAt := -1
	if r.IntN(3) > 0 {
		badAt = r.IntN(n)
	}
	if r.IntN(6) == 0 {
		// a long stream of short messages while the application behind the collector is not
		// taking anything for a while: the collector holds what it has read until it is taken
		n = 70 + r.IntN(150)
		badAt = -1
		if r.IntN(4) == 0 {
			badAt = n - 1 - r.IntN(10)
		}
		pl.Cfg["cstall_ms"] = int64(200 + r.IntN(5000))
		pl.Cfg["max_steps"] = 40_000_000
	}
	var tmpls []gTemplate
	total := 0
	var bounds []int
	// the neighbour connection's template (its own observation domain)
	t1 := genTemplate(r, 6, 400, tmplOpts{maxFields: 3})
	for len(t1.Fields) == 0 {
		t1 = genTemplate(r, 6, 400, tmplOpts{maxFields: 3})
	}
	for i := 0; i < n; i++ {
		var b []byte
		kind := ""
		if i == badAt {
			switch r.IntN(6) {
			case 5:
				// not an IPFIX message by its version; its body would be a template for the neighbour
				// connection's (domain, id) with another layout - it is refused as a whole
				tx := genTemplate(r, 6, 400, tmplOpts{maxFields: 4})
				for len(tx.Fields) == 0 {
					tx = genTemplate(r, 6, 400, tmplOpts{maxFields: 4})
				}
				b = tx.templateMsg(hdr())
				b[1] = []byte{9, 0, 11}[r.IntN(3)]
				kind = "bad-version-template"
			case 0:
				b = ipfixref.EncodeMessage(hdr(), ipfixref.EncodeSet(300, []byte{1, 2, 3, 4}))
				b[1] = 9 // version
				kind = "bad-version"
			case 1:
				b = ipfixref.EncodeMessage(ipfixref.Header{Domain: 5}, ipfixref.EncodeSet(999, []byte{1, 2, 3, 4}))
				kind = "bad-unknown-template"
			case 2:
				l := r.IntN(16)
				b = make([]byte, max(l, 4))
				b[1] = 10
				b[2], b[3] = 0, byte(l)
				kind = "bad-short-length"
			case 3:
				if len(tmpls) > 0 {
					t := tmpls[r.IntN(len(tmpls))]
					body := t.dataBody(r, 2, 10, false, false)
					if len(body) > 1 {
						body = body[:len(body)-1]
					}
					// keep well framed, record cut short; append bytes so that the leftover cannot be padding
					b = t.dataMsg(hdr(), body)
					kind = "bad-truncated-record"
					break
				}
				fallthrough
			default:
				b = ipfixref.EncodeMessage(ipfixref.Header{Domain: 5}, ipfixref.EncodeSet(2, []byte{1, 0, 0, 5, 0, 1}))
				kind = "bad-template"
			}
		} else if len(tmpls) == 0 || r.IntN(4) == 0 {
			t := genTemplate(r, 5, uint16(256+len(tmpls)), o)
			for len(t.Fields) == 0 {
				t = genTemplate(r, 5, uint16(256+len(tmpls)), o)
			}
			tmpls = append(tmpls, t)
			b = t.templateMsg(hdr())
			kind = "template"
		} else {
			t := tmpls[r.IntN(len(tmpls))]
			nrec := 1 + r.IntN(4)
			if r.IntN(5) == 0 {
				// a long message: beyond one read buffer (4 KiB), up to the 64 KiB limit
				nrec = 20 + r.IntN(1500)
			}
			padOnly := r.IntN(15) == 0 // a set that holds padding and no record: a message like any other
			if padOnly {
				nrec = 0
			}
			for {
				body := t.dataBody(r, nrec, []int{0, 5, 300}[r.IntN(3)], r.IntN(4) == 0, padOnly)
				if len(body)+20 <= 65535 {
					b = t.dataMsg(hdr(), body)
					break
				}
				nrec = nrec/2 + 1
			}
			kind = "data"
		}
		pl.Ops = append(pl.Ops, plan.Op{K: "msg", T: 0, X: hex.EncodeToString(b), S: kind})
		total += len(b)
		bounds = append(bounds, total)
	}
	// neighbour connection
	pl.Ops = append(pl.Ops, plan.Op{K: "msg", T: 1, X: hex.EncodeToString(t1.templateMsg(hdr())), S: "template"})
	for i := r.IntN(4); i >= 0; i-- {
		pl.Ops = append(pl.Ops, plan.Op{K: "msg", T: 1, X: hex.EncodeToString(t1.dataMsg(hdr(), t1.dataBody(r, 1+r.IntN(2), 10, false, false))), S: "data"})
	}
	// segmentation of conn 0's stream
	var cuts []int64
	style := r.IntN(5)
	if total > 8192 && style < 2 {
		style = 2 + r.IntN(2) // tens of thousands of tiny delayed pieces only cost time
	}
	rest := total
	for rest > 0 {
		var k int
		switch style {
		case 0: // single bytes
			k = 1
		case 1: // small random pieces
			k = 1 + r.IntN(7)
		case 2: // around message boundaries: cut inside the next message's 4-byte prefix / header
			pos := total - rest
			k = rest
			for _, b := range bounds {
				if b > pos {
					k = b - pos + []int{-3, -2, -1, 0, 1, 2, 3, 4, 15, 16, 17}[r.IntN(11)]
					break
				}
			}
			if k < 1 {
				k = 1
			}
		case 3: // large random pieces (coalescing several messages)
			k = 1 + r.IntN(total)
		default: // whole
			k = rest
		}
		if k > rest {
			k = rest
		}
		var d int64
		if r.IntN(3) == 0 {
			d = int64(r.IntN(3000)) * int64(time.Millisecond)
		}
		cuts = append(cuts, int64(k), d)
		rest -= k
	}
	pl.Ops = append(pl.Ops, plan.Op{K: "cuts", N: cuts})
	if r.IntN(3) == 0 {
		var sizes []int64
		for i := r.IntN(30); i > 0; i-- {
			sizes = append(sizes, int64(1+r.IntN(9)))
		}
		pl.Ops = append(pl.Ops, plan.Op{K: "reads", N: sizes})
	}
	if badAt < 0 && r.IntN(5) == 0 {
		pl.Ops = append(pl.Ops, plan.Op{K: "trunc", A: int64(r.IntN(total + 1)), B: int64(r.IntN(2))})
	}
	genSchedule(r, pl, 2, 3000)
	return pl
}

func runC11(pl *plan.Plan, out *plan.Outcome) {
	env := newEnv(pl, out, keepLogFlag)
	mode := int(cfgOr(pl, "mode", 0))
	addr := "10.0.0.1:4739"
	cp, err := collector.InitCollectingProcess(collector.CollectorInput{Address: addr, Protocol: "tcp", MaxBufferSize: 65535, DecodingMode: modeNames[mode]})
	if err != nil {
		out.Trouble = err.Error()
		return
	}
	var msgs [2][][]byte
	var kinds [2][]string
	var cuts, reads []int64
	trunc := -1
	closeAtOnce := false
	for _, op := range pl.Ops {
		switch op.K {
		case "msg":
			b, _ := hex.DecodeString(op.X)
			t := op.T & 1
			msgs[t] = append(msgs[t], b)
			kinds[t] = append(kinds[t], op.S)
		case "cuts":
			cuts = op.N
		case "reads":
			reads = op.N
		case "trunc":
			trunc = int(op.A)
			closeAtOnce = op.B != 0
		}
	}
	var stream []byte
	var bounds []int
	for _, m := range msgs[0] {
		stream = append(stream, m...)
		bounds = append(bounds, len(stream))
	}
	if trunc >= 0 && trunc < len(stream) {
		stream = stream[:trunc]
	}
	// expectations
	model := newColModel(mode)
	var exp0, exp1 []expectation
	bad0 := -1
	for i, m := range msgs[0] {
		if bounds[i] > len(stream) {
			break // not completely sent
		}
		e := model.step(m)
		if e.Kind == "error" {
			bad0 = i
			break
		}
		exp0 = append(exp0, e)
	}
	for _, m := range msgs[1] {
		exp1 = append(exp1, model.step(m))
	}
	type deliv struct {
		d  dMsg
		at time.Time
	}
	got := map[string][]deliv{}
	env.Net.OnConnect = func(cl, sv *simnet.Conn) {
		if len(reads) > 0 && cl.LocalAddr().String()[:10] == "10.0.0.101" {
			sizes := make([]int, len(reads))
			for i, v := range reads {
				sizes[i] = int(v)
			}
			sv.SetReadSizes(sizes)
		}
	}
	env.Go("collector", func() { cp.Start() })
	env.Go("consumer", func() {
		if ms := cfgOr(pl, "cstall_ms", 0); ms > 0 {
			env.Count("fault.consumer_stall", 1)
			env.Sleep(time.Duration(ms) * time.Millisecond)
		}
		for {
			var msg *entities.Message
			var ok bool
			Block("consume", func() { msg, ok = <-cp.GetMsgChan() })
			if !ok {
				return
			}
			d := captureMsg(msg)
			got[d.Addr] = append(got[d.Addr], deliv{d, time.Now()})
		}
	})
	var closedSeen, neighbourDone bool
	var closeErr string
	offCuts := 0
	env.Go("client0", func() {
		env.Sleep(time.Millisecond)
		var c *simnet.Conn
		var err error
		Block("dial", func() { c, err = env.Net.Dial("tcp", addr) })
		if err != nil {
			out.Trouble = "dial: " + err.Error()
			return
		}
		c.Hook = func(_ *simnet.Conn, p []byte) simnet.WritePlan {
			wp := simnet.WritePlan{Accept: -1}
			pos := 0
			var delayed time.Duration
			for i := 0; i+1 < len(cuts); i += 2 {
				d := time.Duration(cuts[i+1])
				if delayed+d > time.Hour {
					d = 0 // the harness waits two hours for the stream to arrive
				}
				delayed += d
				wp.Pieces = append(wp.Pieces, simnet.Piece{Len: int(cuts[i]), Delay: d})
				pos += int(cuts[i])
				onBoundary := false
				for _, b := range bounds {
					if b == pos {
						onBoundary = true
					}
				}
				if !onBoundary && pos < len(p) {
					offCuts++
				}
			}
			return wp
		}
		if len(stream) > 0 {
			Block("write", func() { c.Write(stream) })
		}
		if bad0 >= 0 {
			// the collector must close the connection: we read until EOF / error, bounded in simulated time
			c.SetReadDeadline(time.Now().Add(2 * time.Hour))
			buf := make([]byte, 16)
			var rerr error
			Block("read", func() { _, rerr = c.Read(buf) })
			if rerr != nil && !isTimeout(rerr) {
				closedSeen = true
			} else if rerr != nil {
				closeErr = rerr.Error()
			}
			c.Close()
			return
		}
		if closeAtOnce {
			// the client is gone as soon as it has written what it writes: whatever the collector has
			// not yet dealt with (a consumer that is not taking anything) is still in the stream
			env.Count("fault.client_closes_right_after_its_last_byte", 1)
			c.Close()
			return
		}
		env.Sleep(2 * time.Hour)
		c.Close()
	})
	env.Go("client1", func() {
		env.Sleep(2 * time.Millisecond)
		var c *simnet.Conn
		var err error
		Block("dial", func() { c, err = env.Net.Dial("tcp", addr) })
		if err != nil {
			out.Trouble = "dial: " + err.Error()
			return
		}
		for i, m := range msgs[1] {
			if i > 0 && i == len(msgs[1])-1 {
				// the last one long after the other connection's stream has been written and dealt with
				env.Sleep(100 * time.Minute)
			}
			Block("write", func() { c.Write(m) })
			env.Sleep(time.Duration(1+env.Rng.IntN(2000)) * time.Millisecond)
		}
		env.Sleep(3 * time.Hour)
		c.Close()
		neighbourDone = true
		env.Sleep(time.Second)
		Block("stop", func() { cp.Stop() })
		cp.CloseMsgChan()
	})
	res := env.Run()
	if res != "done" && out.Trouble == "" {
		env.runEnded(res, out)
		return
	}
	_ = neighbourDone
	// conn 0: exactly the messages before the first undecodable one, in order
	g0 := got["10.0.0.101"]
	if len(g0) != len(exp0) {
		env.Violate("stream-count", "", "stream of %d messages (first undecodable: %d, %d bytes sent of %d): %d delivered, expected %d", len(msgs[0]), bad0, len(stream), bounds[len(bounds)-1], len(g0), len(exp0))
	}
	for i := 0; i < len(g0) && i < len(exp0); i++ {
		d := g0[i].d
		judgeC03(pl.Prop, out, mode, i, kinds[0][i], exp0[i], &d)
		if d.Seq != exp0[i].Header.Sequence || d.ExportTime != exp0[i].Header.ExportTime || d.Domain != exp0[i].Header.Domain {
			env.Violate("stream-header", "", "delivery %d carries header (%d,%d,%d), the %d-th message of the stream has (%d,%d,%d): bytes of different messages were combined or the order changed",
				i, d.Domain, d.Seq, d.ExportTime, i, exp0[i].Header.Domain, exp0[i].Header.Sequence, exp0[i].Header.ExportTime)
		}
	}
	if bad0 >= 0 && !closedSeen {
		env.Violate("not-closed", "", "after undecodable message %d (%s) the client did not observe the connection being closed (read: %s)", bad0, kinds[0][bad0], closeErr)
	}
	// neighbour: everything, in order
	g1 := got["10.0.0.102"]
	if len(g1) != len(exp1) {
		env.Violate("neighbour-count", "", "the well-behaved connection sent %d messages, %d were delivered", len(exp1), len(g1))
	}
	for i := 0; i < len(g1) && i < len(exp1); i++ {
		d := g1[i].d
		judgeC03(pl.Prop, out, mode, i, "neighbour "+kinds[1][i], exp1[i], &d)
	}
	out.Add("probe.cuts_off_message_boundary", int64(offCuts))
	if bad0 >= 0 {
		out.Add("fault.undecodable_message_in_stream", 1)
	}
	if trunc >= 0 {
		out.Add("fault.stream_truncated_by_client_close", 1)
	}
	out.Add("c11.delivered", int64(len(g0)+len(g1)))
	out.Nontrivial = offCuts >= 2
	out.Sample = map[string]any{"messages": len(msgs[0]), "first_undecodable": bad0, "pieces": len(cuts) / 2, "off_boundary_cuts": offCuts, "delivered": len(g0)}
}

func isTimeout(err error) bool {
	type to interface{ Timeout() bool }
	for e := err; e != nil; {
		if t, ok := e.(to); ok && t.Timeout() {
			return true
		}
		u, ok := e.(interface{ Unwrap() error })
		if !ok {
			return false
		}
		e = u.Unwrap()
	}
	return false
}
