package harness

import (
	"encoding/json"
	"flag"
	"fmt"
	"os"
	"path/filepath"
	"regexp"
	"runtime"
	"sort"
	"strings"
	"sync/atomic"
	"testing"
	"time"

	"github.com/vmware/go-ipfix/pkg/verifsim/simrt"

	"verif/sim/plan"
)

var (
	fMode   = flag.String("verif.mode", "", "batch | run | min")
	fProp   = flag.String("verif.prop", "", "property id")
	fTier   = flag.String("verif.tier", "quick", "quick | thorough")
	fLayer  = flag.String("verif.layer", "sim", "sim | race")
	fBase   = flag.Uint64("verif.base", 1, "VERIF_SEED")
	fFrom   = flag.Int("verif.from", 0, "first run index")
	fN      = flag.Int("verif.n", 1, "number of runs")
	fStride = flag.Int("verif.stride", 1, "run index stride")
	fOut    = flag.String("verif.out", "", "output directory / file")
	fWorker = flag.Int("verif.worker", 0, "worker number")
	fPlan   = flag.String("verif.plan", "", "plan file (run / min)")
	fSig    = flag.String("verif.sig", "", "violation signature to preserve (min)")
	fBudget = flag.Int("verif.budget", 300, "minimiser re-run budget")
	fSecs   = flag.Int("verif.secs", 0, "wall-clock cap for a batch (0 = none)")
	fRunCap = flag.Int("verif.runcap", 90, "real-time cap for a single run in seconds (watchdog)")
)

// BatchResult is what one worker writes.
type BatchResult struct {
	Worker     int              `json:"worker"`
	Layer      string           `json:"layer"`
	Runs       int              `json:"runs"`
	Counters   map[string]int64 `json:"counters"`
	SimSeconds float64          `json:"sim_seconds"`
	Hashes     []string         `json:"hashes"` // distinct event-log hashes of non-trivial runs
	Samples    []Sample         `json:"samples"`
	Violations []Found          `json:"violations"`
	// SigRuns counts, per violation signature, every run of this worker that showed it (Violations
	// keeps only the first few runs per signature, so that a frequent signature - a known finding,
	// say - cannot crowd out a rare one)
	SigRuns   map[string]int64 `json:"sig_runs"`
	Troubles  []string         `json:"troubles"`
	NextIndex int              `json:"next_index"`
	WallS     float64          `json:"wall_s"`
}

type Sample struct {
	Seed    uint64 `json:"seed"`
	Plan    any    `json:"plan"`
	Summary any    `json:"summary,omitempty"`
	Hash    string `json:"hash"`
}

type Found struct {
	Seed    uint64        `json:"seed"`
	Plan    *plan.Plan    `json:"plan"`
	Outcome *plan.Outcome `json:"outcome"`
}

func seedFor(base uint64, i int) uint64 { return base*1_000_003 + uint64(i) }

func TestVerif(t *testing.T) {
	if *fMode == "" {
		t.Skip("driven by /verif/check")
	}
	globalInit()
	p := props[*fProp]
	if p == nil {
		fmt.Fprintf(os.Stderr, "unknown property %q\n", *fProp)
		os.Exit(2)
	}
	if *fLayer == "race" {
		simrt.SetMode(simrt.ModeRace)
	} else {
		simrt.SetMode(simrt.ModeSim)
	}
	switch *fMode {
	case "info":
		b, _ := json.Marshal(map[string]any{"id": p.ID, "quick": p.Quick, "thorough": p.Thorough, "race_quick": p.RaceQuick, "race_thorough": p.RaceThorough,
			"real": p.Real, "stub": p.Stub, "rule": p.Rule, "has_race": p.GenRace != nil, "hang_is_violation": p.HangIsViolation})
		fmt.Println()
		fmt.Println(string(b))
	case "gen":
		os.WriteFile(*fOut, gen(p, *fBase).JSON(), 0o644)
	case "batch":
		batch(t, p)
	case "run":
		runOne(t, p)
	case "min":
		minimise(t, p)
	default:
		fmt.Fprintf(os.Stderr, "unknown mode %q\n", *fMode)
		os.Exit(2)
	}
}

func gen(p *Prop, seed uint64) *plan.Plan {
	var pl *plan.Plan
	if *fLayer == "race" {
		pl = p.GenRace(seed, *fTier)
		pl.Mode = "race"
	} else {
		pl = p.Gen(seed, *fTier)
		if pl.Mode == "" {
			pl.Mode = "sim"
		}
	}
	pl.Prop = p.ID
	pl.Seed = seed
	pl.Tier = *fTier
	return pl
}

var raceLogRe = regexp.MustCompile(`(?m)^  ([^\s(]+)\(`)

// raceCheck looks for new race-detector output and turns it into a violation.
type raceWatch struct {
	glob string
	seen map[string]int64
}

func (w *raceWatch) poll(prop string, out *plan.Outcome) {
	if w == nil {
		return
	}
	files, _ := filepath.Glob(w.glob)
	for _, f := range files {
		st, err := os.Stat(f)
		if err != nil || st.Size() == w.seen[f] {
			continue
		}
		b, _ := os.ReadFile(f)
		neu := string(b[w.seen[f]:])
		w.seen[f] = st.Size()
		for _, rep := range strings.Split(neu, "==================") {
			if !strings.Contains(rep, "DATA RACE") {
				continue
			}
			sig := raceSig(rep)
			if sig == "" {
				continue // both accesses are in harness code (e.g. reading results of a task that is stuck)
			}
			out.Violations = append(out.Violations, plan.Violation{Prop: prop, Clause: "race", Loc: sig, Detail: rep})
		}
	}
}

// raceSig: the innermost go-ipfix functions of the two accesses, sorted.
func raceSig(rep string) string {
	var fns []string
	for _, blk := range strings.Split(rep, "\n\n") {
		if !(strings.Contains(blk, "Write at") || strings.Contains(blk, "Read at") || strings.Contains(blk, "Previous write") || strings.Contains(blk, "Previous read") ||
			strings.Contains(blk, "atomic write") || strings.Contains(blk, "atomic read")) {
			continue
		}
		for _, line := range strings.Split(blk, "\n") {
			m := frameRe.FindStringSubmatch(line)
			if m != nil && (!strings.HasPrefix(m[2], "verifsim") || strings.HasPrefix(m[2], "verifsim/cmdcollector")) {
				fns = append(fns, m[2]+"."+trimArgs(m[3]))
				break
			}
		}
	}
	sort.Strings(fns)
	return strings.Join(fns, "|")
}

// runStartNs is the real time at which the current run (or its oracle phase) began, 0 between runs.
var runStartNs atomic.Int64

// inOracle is set once the system under test has finished and only harness-side history checking
// (porcupine) remains: the hang watchdog then no longer speaks about the system under test.
var inOracle atomic.Bool

// oraclePhase is called from inside the bubble, where time.Now is the simulated clock: the
// watchdog goroutine (outside) restarts its own real-time measurement when it sees the flag.
func oraclePhase() { inOracle.Store(true) }

func batch(t *testing.T, p *Prop) {
	start := time.Now()
	res := &BatchResult{Worker: *fWorker, Layer: *fLayer, Counters: map[string]int64{}, SigRuns: map[string]int64{}}
	hashes := map[string]bool{}
	journal := filepath.Join(*fOut, fmt.Sprintf("journal-%s-%d.json", *fLayer, *fWorker))
	var rw *raceWatch
	if *fLayer == "race" {
		rw = &raceWatch{glob: filepath.Join(*fOut, fmt.Sprintf("racelog-%d.*", *fWorker)), seen: map[string]int64{}}
	}
	flush := func() {
		res.Hashes = res.Hashes[:0]
		for h := range hashes {
			res.Hashes = append(res.Hashes, h)
		}
		sort.Strings(res.Hashes)
		for _, st := range simrt.SitesReached() {
			res.Counters["site."+st] = 1 // statements of the library this worker process executed (merged by verifrun)
		}
		res.WallS = time.Since(start).Seconds()
		b, _ := json.Marshal(res)
		tmp := filepath.Join(*fOut, fmt.Sprintf("result-%s-%d.json.tmp", *fLayer, *fWorker))
		os.WriteFile(tmp, b, 0o644)
		os.Rename(tmp, filepath.Join(*fOut, fmt.Sprintf("result-%s-%d.json", *fLayer, *fWorker)))
	}
	// watchdog outside the bubble (reads the real clock): a single run that does not finish within
	// the cap ends the worker with exit status 3 after the results so far were written
	runStart := &runStartNs
	go func() {
		restarted := false
		for {
			time.Sleep(500 * time.Millisecond)
			if !inOracle.Load() {
				restarted = false
			} else if !restarted {
				restarted = true
				if runStart.Load() != 0 {
					runStart.Store(time.Now().UnixNano())
				}
			}
			if s := runStart.Load(); s != 0 && time.Since(time.Unix(0, s)) > time.Duration(*fRunCap)*time.Second {
				flush()
				if inOracle.Load() {
					// the system under test had finished; the harness's own history check is slow
					fmt.Fprintln(os.Stderr, "harness oracle exceeded the real-time cap")
					os.Exit(3)
				}
				os.WriteFile(filepath.Join(*fOut, fmt.Sprintf("hang-%s-%d", *fLayer, *fWorker)), []byte("run exceeded the real-time cap"), 0o644)
				os.Exit(3)
			}
		}
	}()
	for k := 0; k < *fN; k++ {
		idx := *fFrom + k**fStride
		if *fSecs > 0 && time.Since(start) > time.Duration(*fSecs)*time.Second {
			break
		}
		seed := seedFor(*fBase, idx)
		pl := gen(p, seed)
		if len(pl.Sched.PreemptFrac) > 0 && pl.Mode != "race" && pl.Mode != "plain" {
			// two-pass placement of preemptions
			dry := pl.Clone()
			dry.Sched.PreemptFrac, dry.Sched.Preempts = nil, nil
			os.WriteFile(journal, dry.JSON(), 0o644)
			d := execute(t, p, dry, false)
			n := d.Counters["sched.steps"]
			for _, f := range pl.Sched.PreemptFrac {
				if k := int(f * float64(n)); k >= 1 {
					pl.Sched.Preempts = append(pl.Sched.Preempts, k)
				}
			}
			res.Counters["sched.dry_runs"]++
		}
		pl.Sched.PreemptFrac = nil
		os.WriteFile(journal, pl.JSON(), 0o644)
		inOracle.Store(false)
		runStart.Store(time.Now().UnixNano())
		var out *plan.Outcome
		if *fLayer == "race" {
			// the testing package fails (FailNow) a test in which the race detector fired: keep that
			// inside a subtest so that the batch goes on
			t.Run("run", func(st *testing.T) {
				defer func() {
					if out == nil {
						out = &plan.Outcome{Counters: map[string]int64{}}
					}
				}()
				out = execute(st, p, pl, false)
			})
			if out == nil {
				out = &plan.Outcome{Counters: map[string]int64{}}
			}
		} else {
			out = execute(t, p, pl, false)
		}
		runStart.Store(0)
		rw.poll(p.ID, out)
		res.Runs++
		res.NextIndex = idx + *fStride
		for c, v := range out.Counters {
			res.Counters[c] += v
		}
		res.SimSeconds += float64(out.SimNanos) / 1e9
		if out.Trouble != "" {
			res.Troubles = append(res.Troubles, fmt.Sprintf("seed %d: %s", seed, out.Trouble))
			if len(res.Troubles) > 20 {
				flush()
				fmt.Fprintf(os.Stderr, "too much harness trouble, giving up: %s\n", out.Trouble)
				os.Exit(2)
			}
		}
		if out.Nontrivial && out.Hash != "" {
			hashes[out.Hash] = true
		} else if out.Nontrivial {
			hashes[fmt.Sprintf("seed%d", seed)] = true
		}
		if len(res.Samples) < 3 && out.Nontrivial {
			res.Samples = append(res.Samples, Sample{Seed: seed, Plan: pl, Summary: out.Sample, Hash: out.Hash})
		}
		if len(out.Violations) > 0 {
			keep := false
			seen := map[string]bool{}
			for _, v := range out.Violations {
				sg := v.Sig()
				if seen[sg] {
					continue
				}
				seen[sg] = true
				res.SigRuns[sg]++
				if res.SigRuns[sg] <= 3 {
					keep = true
				}
			}
			if keep && len(res.Violations) < 400 {
				res.Violations = append(res.Violations, Found{Seed: seed, Plan: pl, Outcome: out})
			}
		}
		if k%64 == 63 {
			flush()
		}
	}
	os.Remove(journal)
	flush()
}

func runOne(t *testing.T, p *Prop) {
	pl, err := plan.Load(*fPlan)
	if err != nil {
		fmt.Fprintln(os.Stderr, err)
		os.Exit(2)
	}
	var rw *raceWatch
	if pl.Mode == "race" {
		simrt.SetMode(simrt.ModeRace)
		rw = &raceWatch{glob: *fOut + ".racelog.*", seen: map[string]int64{}}
	}
	out := execute(t, p, pl, true)
	rw.poll(p.ID, out)
	b, _ := json.MarshalIndent(out, "", " ")
	if *fOut != "" {
		os.WriteFile(*fOut, b, 0o644)
	} else {
		fmt.Println(string(b))
	}
}

func minimise(t *testing.T, p *Prop) {
	pl, err := plan.Load(*fPlan)
	if err != nil {
		fmt.Fprintln(os.Stderr, err)
		os.Exit(2)
	}
	if pl.Mode == "race" {
		simrt.SetMode(simrt.ModeRace)
	}
	deadline := time.Now().Add(60 * time.Second)
	run := func(c *plan.Plan) *plan.Outcome {
		if time.Now().After(deadline) {
			return nil
		}
		return execute(t, p, c, false)
	}
	best, runs := plan.Minimise(pl, *fSig, *fBudget, run, p.Extra)
	// pin every schedule choice the minimised plan actually takes
	final := execute(t, p, best, true)
	if final.Has(*fSig) && len(final.Choices) > 0 {
		pinned := best.Clone()
		pinned.Sched.Choices = final.Choices
		pinned.Sched.Selects = final.Selects
		if o := execute(t, p, pinned, true); o.Has(*fSig) {
			best, final = pinned, o
		}
	}
	res := struct {
		Plan    *plan.Plan    `json:"plan"`
		Outcome *plan.Outcome `json:"outcome"`
		Reruns  int           `json:"reruns"`
	}{best, final, runs}
	b, _ := json.MarshalIndent(res, "", " ")
	os.WriteFile(*fOut, b, 0o644)
}

var _ = runtime.GOMAXPROCS
