package harness

import (
	"bytes"
	"encoding/json"
	"fmt"
	"io"
	"math/rand/v2"
	"net"
	"sort"
	"strings"
	"time"

	"github.com/vmware/go-ipfix/pkg/entities"
	"github.com/vmware/go-ipfix/pkg/exporter"
	"github.com/vmware/go-ipfix/pkg/registry"
	"github.com/vmware/go-ipfix/pkg/verifsim/simnet"

	"verif/sim/plan"
)

// JSON member of C14: an exporting process configured with SendJSONRecord writes one JSON document
// per data record and nothing else - template sets are registered, never written. The background
// work (template refresh over UDP, connection probe over TCP) goes on all the same while simulated
// time passes. What the application sends is a stream of JSON documents; anything else on the wire,
// at any time, corrupts it.

func genC14JSON(r *rand.Rand, pl *plan.Plan) {
	pl.Cfg["json"] = 1
	pl.Cfg["jsonbuf"] = []int64{0, 0, 16, 100000}[r.IntN(4)]
	var R time.Duration
	if pl.Cfg["proto"] == 1 {
		R = time.Duration(pl.Cfg["refresh"]) * time.Second
	} else {
		R = time.Duration(pl.Cfg["check_ms"]) * time.Millisecond
	}
	nT := 1 + r.IntN(3)
	for i := 0; i < nT; i++ {
		// (the JSON rendering has no case for octetArray elements and JSON has no infinities or NaNs:
		// those elements are not part of this workload)
		var ns []int64
		for _, k := range pickElems(r, 2+r.IntN(8), false) {
			if sp, ok := specFromKey(k); ok && sp.Type != entities.OctetArray && sp.Type != entities.Float32 && sp.Type != entities.Float64 {
				ns = append(ns, k)
			}
		}
		if len(ns) == 0 {
			ns = []int64{idxSmall[0]}
		}
		pl.Ops = append(pl.Ops, plan.Op{K: "tmpl", A: int64(i), N: ns})
		if r.IntN(3) == 0 {
			pl.Ops = append(pl.Ops, plan.Op{K: "adv", A: int64(R / 3)})
		}
	}
	for i, n := 0, 3+r.IntN(10); i < n; i++ {
		op := plan.Op{K: "data", A: int64(r.IntN(nT)), B: int64(1 + r.IntN(4)), C: int64(r.Uint64() >> 1), D: int64(r.IntN(40))}
		if pl.Cfg["json_bad"] == 1 && r.IntN(4) == 0 {
			op.F = []plan.Op{{K: "count", A: 1, B: r.Int64N(op.B)}}
		}
		pl.Ops = append(pl.Ops, op)
		switch r.IntN(4) {
		case 0:
			pl.Ops = append(pl.Ops, plan.Op{K: "adv", A: int64(R)})
		case 1:
			pl.Ops = append(pl.Ops, plan.Op{K: "adv", A: int64(R/2) + r.Int64N(int64(2*R))})
		}
	}
	pl.Ops = append(pl.Ops, plan.Op{K: "adv", A: int64(2 * R)}, plan.Op{K: "close"}, plan.Op{K: "adv", A: int64(2 * R)})
	genSchedule(r, pl, 4, 3000)
}

func runC14JSON(pl *plan.Plan, out *plan.Outcome) {
	env := newEnv(pl, out, keepLogFlag)
	udp := cfgOr(pl, "proto", 0) == 1
	proto := "tcp"
	if udp {
		proto = "udp"
	}
	addr := "10.0.0.1:4739"
	type wr struct {
		at time.Time
		b  []byte
	}
	var wire []wr
	note := func(p []byte) {
		env.mu.Lock()
		wire = append(wire, wr{time.Now(), append([]byte(nil), p...)})
		env.mu.Unlock()
	}
	env.Net.OnConnect = func(cl, sv *simnet.Conn) { cl.Tap = note }
	env.Net.OnUDPBind = func(c *simnet.UDPConn) {
		if c.RemoteAddr() != nil {
			c.Tap = func(to *net.UDPAddr, p []byte) { note(p) }
		}
	}
	type docExp struct{ names []string }
	var expect []docExp
	var bytesReported int
	partial := false // a refused set left documents behind (already reported): byte counts are moot
	var closedAt time.Time
	env.Go("app", func() {
		if f := cfgOr(pl, "start_frac_ms", 0); f > 0 {
			env.Sleep(time.Duration(f) * time.Millisecond)
		}
		if !udp {
			l, err := env.Net.Listen("tcp", addr)
			if err != nil {
				out.Trouble = err.Error()
				return
			}
			env.Go("peer", func() {
				var c net.Conn
				var err error
				Block("accept", func() { c, err = l.Accept() })
				if err != nil {
					return
				}
				buf := make([]byte, 65536)
				for {
					var rerr error
					Block("read", func() { _, rerr = c.Read(buf) })
					if rerr != nil {
						c.Close()
						l.Close()
						return
					}
				}
			})
		}
		var ep *exporter.ExportingProcess
		var err error
		Block("init", func() {
			ep, err = exporter.InitExportingProcess(exporter.ExporterInput{
				CollectorAddress: addr, CollectorProtocol: proto, ObservationDomainID: uint32(cfgOr(pl, "domain", 1)),
				TempRefTimeout: uint32(cfgOr(pl, "refresh", 0)), CheckConnInterval: time.Duration(cfgOr(pl, "check_ms", 0)) * time.Millisecond,
				SendJSONRecord: true, JSONBufferLen: int(cfgOr(pl, "jsonbuf", 0)),
			})
		})
		if err != nil {
			out.Trouble = "exporter init failed: " + err.Error()
			return
		}
		set := entities.NewSet(false)
		tmpls := map[int][]elemSpec{}
		ids := map[int]uint16{}
		for i, op := range pl.Ops {
			switch op.K {
			case "adv":
				env.Sleep(time.Duration(op.A))
			case "close":
				Block("close", func() { ep.CloseConnToCollector() })
				closedAt = time.Now()
			case "tmpl":
				if !closedAt.IsZero() {
					continue
				}
				var specs []elemSpec
				for _, k := range op.N {
					if sp, ok := specFromKey(k); ok {
						specs = append(specs, sp)
					}
				}
				if len(specs) == 0 {
					continue
				}
				id := ep.NewTemplateID()
				set.ResetSet()
				if err := set.PrepareSet(entities.Template, id); err != nil {
					panic(err)
				}
				elems := make([]entities.InfoElementWithValue, len(specs))
				for k, sp := range specs {
					ie, err := registry.GetInfoElement(sp.Name, sp.Ent)
					if err != nil {
						panic(err)
					}
					el, err := entities.DecodeAndCreateInfoElementWithValue(ie, nil)
					if err != nil {
						panic(err)
					}
					elems[k] = el
				}
				if err := set.AddRecord(elems, id); err != nil {
					panic(err)
				}
				var n int
				var serr error
				Block("send", func() { n, serr = ep.SendSet(set) })
				if serr != nil {
					env.Violate("valid-send-rejected", "json-template", "op %d: template set refused by a JSON exporter: %v", i, serr)
					continue
				}
				bytesReported += n
				tmpls[int(op.A)], ids[int(op.A)] = specs, id
			case "data":
				specs := tmpls[int(op.A)]
				if specs == nil || !closedAt.IsZero() {
					continue
				}
				r := rand.New(rand.NewPCG(uint64(op.C), 0xda7e))
				set.ResetSet()
				if err := set.PrepareSet(entities.Data, ids[int(op.A)]); err != nil {
					panic(err)
				}
				var names [][]string
				badRec := -1 // a record of the set with one field too many (op.F: count fault)
				for _, f := range op.F {
					if f.K == "count" {
						badRec = int(f.B) % int(op.B)
					}
				}
				for rec := 0; rec < int(op.B); rec++ {
					elems := make([]entities.InfoElementWithValue, len(specs))
					var ns []string
					for k, sp := range specs {
						ie, err := registry.GetInfoElement(sp.Name, sp.Ent)
						if err != nil {
							panic(err)
						}
						elems[k] = mkElement(sp, ie, genWire(r, sp, int(op.D)))
						ns = append(ns, sp.Name)
					}
					if rec == badRec {
						elems = append(elems, elems[0])
					}
					if err := set.AddRecord(elems, ids[int(op.A)]); err != nil {
						panic(err)
					}
					names = append(names, ns)
				}
				var n int
				var serr error
				env.mu.Lock()
				before := len(wire)
				env.mu.Unlock()
				Block("send", func() { n, serr = ep.SendSet(set) })
				if badRec >= 0 {
					env.mu.Lock()
					wrote := len(wire) - before
					env.mu.Unlock()
					env.Count("fault.invalid_attempt.json_record_with_wrong_field_count", 1)
					if serr == nil {
						env.Violate("invalid-accepted", "json:field-count", "op %d: record %d of %d has one field too many, SendSet of the JSON exporter returned success", i, badRec, op.B)
					} else if wrote > 0 {
						env.Violate("error-but-wrote", "json", "op %d: record %d of %d has one field too many and SendSet returned an error (%v), but %d documents had been written by then", i, badRec, op.B, serr, wrote)
					}
					if serr == nil {
						// what was written is on the wire: keep the document count in step
						for r2 := 0; r2 < int(op.B); r2++ {
							expect = append(expect, docExp{names[r2]})
						}
						bytesReported += n
					} else {
						for r2 := 0; r2 < wrote; r2++ {
							expect = append(expect, docExp{names[r2]})
						}
						bytesReported += n
						partial = true
					}
					continue
				}
				if serr != nil {
					env.Violate("valid-send-rejected", "json-data", "op %d: data set refused by a JSON exporter: %v", i, serr)
					continue
				}
				bytesReported += n
				for _, ns := range names {
					expect = append(expect, docExp{ns})
				}
			}
		}
	})
	if res := env.Run(); res != "done" && out.Trouble == "" {
		env.runEnded(res, out)
		return
	}
	if out.Trouble != "" {
		return
	}
	// the wire: JSON documents, one per record, nothing else
	var docs []map[string]any
	total := 0
	bad := false
	parse := func(b []byte, where string) {
		dec := json.NewDecoder(bytes.NewReader(b))
		for {
			var d map[string]any
			err := dec.Decode(&d)
			if err == io.EOF {
				return
			}
			if err != nil {
				if !bad {
					kind := "bytes that are not JSON"
					if len(b) >= 2 && b[0] == 0 && b[1] == 10 {
						kind = "a binary IPFIX message"
					}
					env.Violate("json-stream-corrupt", proto, "%s: %s among the JSON documents of a SendJSONRecord exporter (%d bytes, starts % x): %v", where, kind, len(b), b[:min(len(b), 20)], err)
				}
				bad = true
				return
			}
			docs = append(docs, d)
		}
	}
	if udp {
		for i, w := range wire {
			total += len(w.b)
			parse(w.b, fmt.Sprintf("datagram %d at +%v", i, w.at.Sub(wire[0].at)))
		}
	} else {
		var all []byte
		for _, w := range wire {
			all = append(all, w.b...)
		}
		total = len(all)
		parse(all, "stream")
	}
	if !closedAt.IsZero() {
		for _, w := range wire {
			if w.at.After(closedAt) {
				env.Violate("write-after-close", proto, "%d bytes written %v after CloseConnToCollector returned", len(w.b), w.at.Sub(closedAt))
				break
			}
		}
	}
	if !bad {
		if len(docs) != len(expect) {
			env.Violate("json-stream-count", proto, "%d records sent successfully, %d JSON documents on the wire", len(expect), len(docs))
		} else {
			for i, d := range docs {
				body, _ := d["ipfix"].(map[string]any)
				_, hasTS := d["@timestamp"].(string)
				want := map[string]bool{}
				for _, n := range expect[i].names {
					want[n] = true
				}
				var missing []string
				for n := range want {
					if _, ok := body[n]; !ok {
						missing = append(missing, n)
					}
				}
				sort.Strings(missing)
				if body == nil || !hasTS || len(missing) > 0 || len(body) != len(want) {
					env.Violate("json-document", proto, "document %d: has timestamp %v, %d fields for a record of %d distinct elements, missing %s", i, hasTS, len(body), len(want), strings.Join(missing, ","))
					break
				}
			}
		}
		if total != bytesReported && !partial {
			env.Violate("byte-count", "json", "SendSet reported %d bytes in all, %d were written", bytesReported, total)
		}
	}
	out.Add("c14.json_documents", int64(len(docs)))
	out.Add("c14.json_member", 1)
	out.Nontrivial = len(expect) >= 2
	out.Sample = map[string]any{"member": "json", "proto": proto, "documents": len(docs)}
}
