package harness

import (
	"errors"
	"fmt"
	"math/rand/v2"
	"net"
	"sort"
	"strings"
	"time"

	"github.com/vmware/go-ipfix/pkg/verifsim/simnet"

	"verif/oracle/ipfixref"
	"verif/sim/plan"
)

// C14 — exporter background activity and lifecycle never corrupt the stream.
//
// Plan ops (application task, in order): tmpl / data / adv / close as in expsession.go.
// Side ops: {K:"closer", T:task, A:at (ms), B:repeats} CloseConnToCollector from another goroutine;
// {K:"peerclose", A:at (ms)} collector-side orderly close of the TCP connection;
// {K:"bgfail", A:n} the n-th datagram written by the refresh goroutine fails (write error).
// Cfg: proto, refresh (s), check_ms.

func init() {
	register(&Prop{
		ID: "C14", HangIsViolation: true, Gen: genC14, GenRace: genC14Race, Run: runC14, Quick: 2000, Thorough: 250000, RaceQuick: 500, RaceThorough: 12000,
		Real: []string{"pkg/exporter: InitExportingProcess, SendSet, template refresh goroutine (UDP), connection-check goroutine (TCP), CloseConnToCollector / closeConnToCollector", "pkg/entities"},
		Stub: []string{"OS sockets (simnet; after the peer's FIN a write succeeds and vanishes, as with a real kernel)", "wall clock (synctest bubble)", "goroutine scheduling (sim layer: seeded baton scheduler with preemptions; race layer: Go scheduler under the race detector, application confined to one goroutine)"},
		Rule: "application sends placed on / 1 ns around refresh ticks, first template before or after the first tick, peer close at a seeded time, write error on a refresh datagram, CloseConnToCollector from 1-3 other goroutines concurrently and repeatedly, sends after Close; a tenth of the plans run a SendJSONRecord exporter (templates, data, time across ticks / probes, close: the wire is one JSON document per record and nothing else); non-trivial = at least one refresh burst or connection check overlapped with application activity, or a concurrent Close; distinct = distinct event-log hash (sim) / plan seed (race); every wire message also carries the sequence number that belongs at its place in the stream (the C08 oracle on this traffic)",
	})
}

func genC14(seed uint64, tier string) *plan.Plan {
	initC09Index()
	r := rand.New(rand.NewPCG(seed, 0xc14))
	pl := &plan.Plan{Cfg: map[string]int64{}}
	if r.IntN(15) == 0 {
		genTwoExporters(r, pl)
		return pl
	}
	udp := r.IntN(3) > 0
	pl.Cfg["domain"] = int64(r.Uint32())
	// the exporting process is not created on a whole second: its ticks fall inside seconds
	pl.Cfg["start_frac_ms"] = []int64{0, 0, 250, 500, 999}[r.IntN(5)]
	var R time.Duration
	if udp {
		pl.Cfg["proto"] = 1
		pl.Cfg["refresh"] = []int64{1, 2, 5, 60, 600}[r.IntN(5)]
		R = time.Duration(pl.Cfg["refresh"]) * time.Second
	} else {
		pl.Cfg["check_ms"] = []int64{10, 100, 1000, 10000}[r.IntN(4)]
		R = time.Duration(pl.Cfg["check_ms"]) * time.Millisecond
	}
	if r.IntN(10) == 0 {
		genC14JSON(r, pl)
		return pl
	}
	now := time.Duration(0)
	advTo := func(t time.Duration) {
		if t > now {
			pl.Ops = append(pl.Ops, plan.Op{K: "adv", A: int64(t - now)})
			now = t
		}
	}
	if r.IntN(4) == 0 {
		// the first template is sent only after the first tick
		advTo(R + time.Duration(r.IntN(3))*R/2)
	}
	nT := 1 + r.IntN(3)
	for i := 0; i < nT; i++ {
		pl.Ops = append(pl.Ops, plan.Op{K: "tmpl", A: int64(i), N: pickElems(r, 1+r.IntN(5), true)})
	}
	n := 4 + r.IntN(14)
	for i := 0; i < n; i++ {
		switch x := r.IntN(10); {
		case x < 5:
			pl.Ops = append(pl.Ops, plan.Op{K: "data", A: int64(r.IntN(nT)), B: int64(1 + r.IntN(3)), C: int64(r.Uint64() >> 1), D: int64(r.IntN(40))})
		case x < 9:
			// move to just before / on / just after the next tick, or somewhere else
			k := now/R + 1
			var t time.Duration
			switch r.IntN(6) {
			case 5:
				t = k*R - []time.Duration{100, 250, 600}[r.IntN(3)]*time.Millisecond // shortly before the tick, often in the tick's own second
			case 0:
				t = k * R
			case 1:
				t = k*R - time.Nanosecond
			case 2:
				t = k*R + time.Nanosecond
			case 3:
				t = k*R + time.Duration(r.Int64N(int64(R)))
			default:
				t = now + time.Duration(r.Int64N(int64(R)))
			}
			advTo(t)
			if nT < 6 && r.IntN(3) == 0 {
				// a template that is new to the exporter, sent on / next to the tick
				pl.Ops = append(pl.Ops, plan.Op{K: "tmpl", A: int64(nT), N: pickElems(r, 1+r.IntN(4), true)})
				nT++
			}
		default:
			if nT < 5 {
				op := plan.Op{K: "tmpl", A: int64(nT), N: pickElems(r, 1+r.IntN(4), true)}
				if udp && r.IntN(6) == 0 {
					op.N, op.S = nil, "empty" // a template record without fields, under a new id
				}
				pl.Ops = append(pl.Ops, op)
				nT++
			}
		}
	}
	horizonMs := int64(now/time.Millisecond) + 1
	if !udp && r.IntN(2) == 0 {
		// a collector that stops reading (for a while or for good) while the application keeps
		// sending: the sends block on the full window, and Close arrives from other goroutines
		pl.Cfg["window"] = []int64{512, 2048, 8192}[r.IntN(3)]
		stall := int64(-1)
		if r.IntN(3) == 0 {
			stall = int64(500 + r.IntN(8000))
		}
		pl.Ops = append(pl.Ops, plan.Op{K: "stallnow", B: stall})
		for i := 2 + r.IntN(4); i > 0; i-- {
			pl.Ops = append(pl.Ops, plan.Op{K: "data", A: int64(r.IntN(nT)), B: int64(10 + r.IntN(30)), C: int64(r.Uint64() >> 1), D: int64(100 + r.IntN(200))})
		}
		for c := r.IntN(3); c > 0; c-- {
			pl.Ops = append(pl.Ops, plan.Op{K: "closer", T: 3 + c, A: horizonMs + r.Int64N(3000), B: int64(1 + r.IntN(2))})
		}
	}
	if r.IntN(2) == 0 {
		at := r.Int64N(horizonMs + 10)
		same := r.IntN(3) == 0 // several goroutines call Close at the same instant: only the scheduler orders them
		for c := 1 + r.IntN(3); c > 0; c-- {
			if !same {
				at = r.Int64N(horizonMs + 10)
			}
			pl.Ops = append(pl.Ops, plan.Op{K: "closer", T: c, A: at, B: int64(1 + r.IntN(3))})
		}
	}
	if !udp && r.IntN(2) == 0 {
		pl.Ops = append(pl.Ops, plan.Op{K: "peerclose", A: r.Int64N(horizonMs + 1)})
	}
	if udp && r.IntN(6) == 0 {
		pl.Ops = append(pl.Ops, plan.Op{K: "bgfail", A: int64(r.IntN(4))})
	}
	if r.IntN(3) == 0 {
		// sends after the application itself closed
		pl.Ops = append(pl.Ops, plan.Op{K: "close"}, plan.Op{K: "data", A: 0, B: 1, C: 7, D: 5}, plan.Op{K: "close"})
	}
	genSchedule(r, pl, 6, 4000)
	return pl
}

// genC14Race: the race layer cannot place goroutines, it can only make overlap likely. Half of its
// plans are the ordinary ones; the other half keep the UDP refresher busy (1 s interval, several
// templates, so every burst is a handful of sends) and have the application announce a new
// template and send data exactly on / 1 ns around every tick for several ticks.
func genC14Race(seed uint64, tier string) *plan.Plan {
	r := rand.New(rand.NewPCG(seed, 0xc14ace))
	if r.IntN(2) == 0 {
		return genC14(seed, tier)
	}
	initC09Index()
	pl := &plan.Plan{Cfg: map[string]int64{"proto": 1, "refresh": 1}}
	pl.Cfg["domain"] = int64(r.Uint32())
	R := time.Second
	nT := 3 + r.IntN(3)
	for i := 0; i < nT; i++ {
		pl.Ops = append(pl.Ops, plan.Op{K: "tmpl", A: int64(i), N: pickElems(r, 1+r.IntN(4), true)})
	}
	now := time.Duration(0)
	for k := 1; k <= 3+r.IntN(4); k++ {
		t := time.Duration(k)*R + []time.Duration{0, 0, -time.Nanosecond, time.Nanosecond, 50 * time.Microsecond}[r.IntN(5)]
		if t > now {
			pl.Ops = append(pl.Ops, plan.Op{K: "adv", A: int64(t - now)})
			now = t
		}
		if nT < 12 {
			pl.Ops = append(pl.Ops, plan.Op{K: "tmpl", A: int64(nT), N: pickElems(r, 1+r.IntN(4), true)})
			nT++
		}
		for j := r.IntN(3); j > 0; j-- {
			// templates announced again, unchanged, while the refresh is at work
			pl.Ops = append(pl.Ops, plan.Op{K: "tmplagain", A: int64(r.IntN(nT))})
		}
		for j := r.IntN(3); j > 0; j-- {
			pl.Ops = append(pl.Ops, plan.Op{K: "data", A: int64(r.IntN(nT)), B: int64(1 + r.IntN(3)), C: int64(r.Uint64() >> 1), D: int64(r.IntN(40))})
		}
	}
	if r.IntN(3) == 0 {
		pl.Ops = append(pl.Ops, plan.Op{K: "closer", T: 1, A: int64(now/time.Millisecond) + r.Int64N(1500), B: 1})
	}
	genSchedule(r, pl, 0, 0)
	return pl
}

func runC14(pl *plan.Plan, out *plan.Outcome) {
	if cfgOr(pl, "json", 0) == 1 {
		runC14JSON(pl, out)
		return
	}
	if cfgOr(pl, "two", 0) == 1 {
		// what one exporting process writes is its own: never another process's bytes
		runTwoExporters(pl, out, func(s *expSession) { s.checkWire("C14") })
		return
	}
	env := newEnv(pl, out, keepLogFlag)
	udp := cfgOr(pl, "proto", 0) == 1
	var appOps, closers []plan.Op
	peerCloseMs, bgFail := int64(-1), int64(-1)
	for _, op := range pl.Ops {
		switch op.K {
		case "closer":
			closers = append(closers, op)
		case "peerclose":
			peerCloseMs = op.A
		case "bgfail":
			bgFail = op.A
		default:
			appOps = append(appOps, op)
		}
	}
	var sess *expSession
	var tInit time.Time
	var firstCloseCall, firstCloseRet, peerClosedAt, bgFailedAt time.Time
	sessReady := make(chan struct{})
	var srvConn *simnet.Conn
	accepted := make(chan struct{})
	bgCount := int64(0)
	noteClose := func(call time.Time) {
		env.mu.Lock()
		if firstCloseCall.IsZero() || call.Before(firstCloseCall) {
			firstCloseCall = call
		}
		env.mu.Unlock()
	}
	noteRet := func(ret time.Time) {
		env.mu.Lock()
		if firstCloseRet.IsZero() || ret.Before(firstCloseRet) {
			firstCloseRet = ret
		}
		env.mu.Unlock()
		if env.Sim != nil {
			// "stops all background work": the moment any Close call has returned, the exporter's own
			// goroutines must be gone. Under the scheduler every other goroutine is parked or blocked
			// right now, so the census is exact.
			if left := census(func(g string) bool {
				return strings.Contains(g, "go-ipfix/pkg/exporter.InitExportingProcess.func")
			}); len(left) > 0 {
				env.Violate("close-returned-with-background-work", "", "CloseConnToCollector returned while %d background goroutines of the exporter are still alive, e.g. %s", len(left), oneLineStack(left[0]))
			}
		}
	}
	var leftover []string
	env.Go("app", func() {
		opts := expOpts{}
		if udp && bgFail >= 0 {
			// fail the n-th datagram written by the refresh goroutine
			opts.udpHook = func(s *expSession, p []byte) simnet.Fate {
				if simrtGoID() == s.appGID {
					return simnet.Fate{}
				}
				env.mu.Lock()
				n := bgCount
				bgCount++
				hit := n == bgFail
				if hit {
					bgFailedAt = time.Now()
				}
				env.mu.Unlock()
				if hit {
					env.Count("fault.refresh_write_error", 1)
					return simnet.Fate{Err: errors.New("injected write error")}
				}
				return simnet.Fate{}
			}
		}
		opts.noPeer = true // the peer task below accepts (and, with a window, reads)
		if f := cfgOr(pl, "start_frac_ms", 0); f > 0 {
			env.Sleep(time.Duration(f) * time.Millisecond)
		}
		s, err := newExpSessionOpts(env, opts)
		if err != nil {
			out.Trouble = "exporter init failed: " + err.Error()
			close(sessReady)
			return
		}
		sess = s
		tInit = time.Now()
		close(sessReady)
		s.appGIDInit()
		for i, op := range appOps {
			if op.K == "close" {
				noteClose(time.Now())
				s.closeExporter()
				noteRet(time.Now())
				continue
			}
			s.runOps1(i, op)
		}
		// let background work go on for a while, then close for good
		env.Sleep(s.refresh + 3*time.Second)
		noteClose(time.Now())
		s.closeExporter()
		noteRet(time.Now())
		env.Sleep(time.Millisecond)
		leftover = census(func(g string) bool { return strings.Contains(g, "go-ipfix/pkg/exporter.") })
	})
	if !udp {
		env.Go("peer", func() {
			Block("wait", func() { <-sessReady })
			if sess == nil || sess.listener == nil {
				return
			}
			var c net.Conn
			var err error
			Block("accept", func() { c, err = sess.listener.Accept() })
			if err != nil {
				return
			}
			srvConn = c.(*simnet.Conn)
			close(accepted)
			if sess.window > 0 {
				env.Go("peer-reader", func() { sess.servePeer(c) })
			}
			if peerCloseMs >= 0 {
				env.Sleep(time.Duration(peerCloseMs) * time.Millisecond)
				env.mu.Lock()
				peerClosedAt = time.Now()
				env.mu.Unlock()
				Block("peerclose", func() { srvConn.Close() })
				env.Count("fault.peer_close", 1)
			}
		})
	}
	for _, op := range closers {
		op := op
		env.Go(fmt.Sprintf("closer%d", op.T), func() {
			Block("wait", func() { <-sessReady })
			if sess == nil {
				return
			}
			env.Sleep(time.Duration(op.A) * time.Millisecond)
			for i := int64(0); i < op.B; i++ {
				noteClose(time.Now())
				Block("close", func() { sess.ep.CloseConnToCollector() })
				noteRet(time.Now())
				sess.noteClosed()
				env.Count("fault.concurrent_close", 1)
			}
		})
	}
	if !udp && cfgOr(pl, "window", 0) > 0 {
		// With a collector that may have stopped reading for good the application can be blocked in
		// SendSet indefinitely; only a Close from another goroutine ends that. This one is not part of
		// the plan (so no shrinking can remove it): it comes after everything the plan schedules.
		var total time.Duration
		for _, op := range pl.Ops {
			switch op.K {
			case "adv":
				total += time.Duration(op.A)
			case "closer":
				if d := time.Duration(op.A) * time.Millisecond; d > total {
					total = d
				}
			case "stallnow":
				if op.B > 0 {
					total += time.Duration(op.B) * time.Millisecond
				}
			}
		}
		env.Go("closer-last", func() {
			Block("wait", func() { <-sessReady })
			if sess == nil {
				return
			}
			env.Sleep(total + 60*time.Second)
			noteClose(time.Now())
			Block("close", func() { sess.ep.CloseConnToCollector() })
			noteRet(time.Now())
			sess.noteClosed()
		})
	}
	res := env.Run()
	if res == "stuck" {
		env.Violate("close-hangs", "", "the run did not finish: a CloseConnToCollector / SendSet call never returned")
		return
	}
	if res != "done" && out.Trouble == "" {
		env.runEnded(res, out)
		return
	}
	if sess == nil {
		return
	}
	s := sess
	// (1) every datagram / write is exactly one well-formed message of either origin
	s.checkWire("C14")
	// (1b) ... and carries the sequence number that belongs at its place in the stream: neither the
	// refresh nor a Close from another goroutine makes a message forget what was sent before it
	s.seqCheck()
	pw := s.parseWire()
	// (2) nothing is written after the first Close returned
	for i, w := range pw {
		if !firstCloseRet.IsZero() && w.At.After(firstCloseRet) {
			env.Violate("write-after-close", "", "wire message %d (by %s) was written %v after CloseConnToCollector had returned", i, w.By, w.At.Sub(firstCloseRet))
			break
		}
	}
	// (3) background goroutines are gone
	if len(leftover) > 0 {
		env.Violate("goroutine-leak", "", "%d exporter goroutines still alive after CloseConnToCollector returned, e.g. %s", len(leftover), oneLineStack(leftover[0]))
	}
	overlap := 0
	if udp {
		// (4) every refresh interval retransmits every template sent so far, once
		R := s.refresh
		closedAt := firstCloseCall
		if !bgFailedAt.IsZero() && (closedAt.IsZero() || bgFailedAt.Before(closedAt)) {
			closedAt = bgFailedAt
		}
		byID := map[uint16]int{}
		for slot, t := range s.tmpls {
			byID[t.ID] = slot
		}
		for k := 1; ; k++ {
			tk := tInit.Add(time.Duration(k) * R)
			if closedAt.IsZero() || !tk.Before(closedAt) {
				break
			}
			// templates whose first successful send returned strictly before the tick
			want := map[uint16]bool{}
			for _, c := range s.calls {
				if c.Kind == "tmpl" && c.Err == nil && c.T1.Before(tk) {
					want[s.tmpls[c.Slot].ID] = true
				}
				if !c.T0.After(tk) && !c.T1.Before(tk) {
					overlap++
				}
			}
			got := map[uint16]int{}
			for _, w := range pw {
				if w.Call >= 0 || w.Err != nil || !w.At.Equal(tk) || len(w.Msg.Sets) != 1 || w.Msg.Sets[0].ID != ipfixref.TemplateSetID {
					continue
				}
				for _, tr := range w.Msg.Sets[0].Templates {
					got[tr.ID]++
				}
			}
			var missing []int
			for id := range want {
				if got[id] == 0 {
					missing = append(missing, int(id))
				}
			}
			sort.Ints(missing)
			if len(missing) > 0 {
				env.Violate("refresh-missing", "", "refresh interval %d (tick at +%v, interval %v): templates %v were sent before the tick and were not retransmitted (retransmitted: %v)", k, tk.Sub(tInit), R, missing, got)
				break
			}
			for id, n := range got {
				if n > 1 {
					env.Violate("refresh-duplicate", "", "refresh interval %d: template %d retransmitted %d times in one burst", k, id, n)
				}
			}
			if len(want) > 0 {
				out.Add("c14.refresh_bursts_checked", 1)
			}
		}
	}
	if udp && !bgFailedAt.IsZero() {
		// (4b) A refresh pass that hit a write error cannot retransmit everything. The one excuse for
		// templates missing from an interval is that the exporting process is closed (so that the
		// application's next send fails instead of going out next to stale collector state): after
		// the failed write nothing more may be written and no later send may succeed.
		for i, w := range pw {
			if w.At.After(bgFailedAt) && w.Err == nil {
				env.Violate("refresh-error-swallowed", "", "a datagram of the template refresh at +%v failed to be written, yet the exporting process went on: wire message %d (by %s) was written %v later", bgFailedAt.Sub(tInit), i, w.By, w.At.Sub(bgFailedAt))
				break
			}
		}
		for ci, c := range s.calls {
			if c.T0.After(bgFailedAt.Add(time.Millisecond)) && c.Err == nil {
				env.Violate("refresh-error-swallowed", "", "a datagram of the template refresh at +%v failed to be written, yet call %d (%s) invoked %v later returned success", bgFailedAt.Sub(tInit), ci, c.Kind, c.T0.Sub(bgFailedAt))
				break
			}
		}
	}
	if udp {
		// nothing more for UDP
	} else if !peerClosedAt.IsZero() {
		// (5) after a collector-side close, sends invoked later than close + interval fail
		iv := time.Duration(cfgOr(pl, "check_ms", 0)) * time.Millisecond
		limit := peerClosedAt.Add(iv + time.Millisecond)
		for ci, c := range s.calls {
			if c.T0.After(limit) && c.Err == nil && c.Valid {
				env.Violate("send-vanishes-after-peer-close", "", "call %d (%s) invoked %v after the collector closed the connection (check interval %v) returned success", ci, c.Kind, c.T0.Sub(peerClosedAt), iv)
				break
			}
			if c.T0.After(peerClosedAt) {
				overlap++
			}
		}
	}
	out.Add("probe.app_activity_overlapping_background", int64(overlap))
	out.Add("c14.wire_messages", int64(len(pw)))
	out.Nontrivial = overlap > 0 || len(closers) > 0
	if out.Hash == "" || pl.Mode == "race" {
		out.Hash = fmt.Sprintf("seed-%d", pl.Seed)
	}
	out.Sample = map[string]any{"proto": s.proto, "calls": len(s.calls), "wire": len(pw), "closers": len(closers), "peer_close_ms": peerCloseMs, "bgfail": bgFail}
}
