package harness

import (
	"fmt"
	"math/rand/v2"
	"sort"
	"strings"
	"time"

	"verif/sim/plan"
)

// C05 / C06 / C07 — flow aggregation arithmetic, expiry and correlation. One
// engine (aggsession.go) and one reference model (aggmodel.go); each property
// reports the oracle clauses that restate its own sentence (c05-*, c06-*, c07-*)
// and its generator leans towards the operations that matter for it.

func init() {
	common := func(id string, emphasis int, rule string) *Prop {
		return &Prop{
			ID: id, Quick: 4000, Thorough: 600000,
			Gen:  func(seed uint64, tier string) *plan.Plan { return genAgg(seed, tier, emphasis) },
			Run:  func(pl *plan.Plan, out *plan.Outcome) { runAgg(pl, out, id) },
			Real: []string{"pkg/intermediate AggregationProcess (AggregateMsgByFlowKey, ForAllExpiredFlowRecordsDo, GetRecords, GetNumFlows, GetExpiryFromExpirePriorityQueue, ResetStatAndThroughputElementsInRecord, ForAllRecordsDo), priority queue", "pkg/entities records", "pkg/registry"},
			Stub: []string{"wall clock (synctest bubble: time.Now inside the process reads simulated time, deadlines can be hit exactly)", "the export callback (records what it is given, optionally resets, fails on plan-chosen invocations)"},
			Rule: rule,
		}
	}
	register(common("C05", 0, "histories over 2-4 five-tuples (IPv4 and IPv6; intra-node, to-external, inter-node correlated, egress-denied, ingress-rejected, ingress-dropped) of records from source/destination nodes respecting the exporter contract (per node end times strictly increase - now and then by 2^31 s or more -, totals do not decrease, end > start), resets, exports and queries (one key, all flows, a partial key), several records per message, three element orders, records that omit an element, free-text httpVals (JSON objects and text that is none), through direct calls or the worker pool; checked against the sequential model after every operation; non-trivial = at least 3 records aggregated into an existing flow; distinct = distinct event-log hash"))
	register(common("C06", 1, "histories of {record, clock advance (0, 1 ns, exactly to a deadline, deadline +/- 1 ns, multiples of the timeouts), expiry scan whose callback fails on chosen invocations or takes time, query}; callback set/order, map/heap bijection, heap order and deadlines checked after every operation; non-trivial = at least 2 scans that exported something or a scan with a failing callback; distinct = distinct event-log hash"))
	register(common("C07", 2, "histories of source-node and destination-node records of inter-node flows in all arrival orders and multiplicities, with the full correlate list, one with an unsupported entry, a partial one or none, boundary values in numeric correlate fields, interleaved with expiry scans up to retry exhaustion; ready/filled status, merged fields and retry/drop timing checked against the model; non-trivial = at least one correlation or one retry; distinct = distinct event-log hash"))
}

type genFlow struct {
	cat          int
	startOff     [2]uint32 // each reporting node has its own idea of when the flow started
	start        uint32
	lastEnd      [2]uint32
	rates        [4]uint64
	base         [4]uint64
	exists       bool
	ready        bool
	seen         [2]bool
	active, inac time.Time
	retries      int
}

func genAgg(seed uint64, tier string, emphasis int) *plan.Plan {
	r := rand.New(rand.NewPCG(seed, 0xa99+uint64(emphasis)))
	jr := rand.New(rand.NewPCG(seed, 0x1a99)) // a stream of its own for the long gaps: the rest of the plan is what it was without them
	pl := &plan.Plan{Cfg: map[string]int64{}}
	nk := 2 + r.IntN(3)
	pl.Cfg["keys"] = int64(nk)
	pl.Cfg["workers"] = []int64{1, 2, 2, 3}[r.IntN(4)]
	keymode := r.IntN(4) == 0
	if keymode {
		pl.Cfg["keymode"] = 1
	}
	activeMs := []int64{100, 500, 1000, 5000, 60000}[r.IntN(5)]
	inactiveMs := []int64{150, 500, 3000, 5000, 90000}[r.IntN(5)]
	pl.Cfg["active_ms"], pl.Cfg["inactive_ms"] = activeMs, inactiveMs
	pl.Cfg["max_retries"] = int64(r.IntN(4))
	longRetry := emphasis == 2 && r.IntN(30) == 0
	if longRetry {
		// an application that is patient with the other node: hundreds of tries (see the end of the plan)
		pl.Cfg["max_retries"] = []int64{254, 255, 256, 300}[r.IntN(4)]
	}
	pl.Cfg["min_expiry_ms"] = []int64{0, 100}[r.IntN(2)]
	if r.IntN(3) == 0 {
		pl.Cfg["corr_odd"] = int64(1 + r.IntN(40))
	} else if r.IntN(5) == 0 {
		// the application lists only some of the fields, or none: records of both nodes are still
		// paired, only the listed fields are copied
		pl.Cfg["corr_drop"] = []int64{0xfff, int64(1 + r.IntN(0xfff)), 0x9, 0x3f}[r.IntN(4)]
	}
	A, I := time.Duration(activeMs)*time.Millisecond, time.Duration(inactiveMs)*time.Millisecond
	maxRetries := int(pl.Cfg["max_retries"])
	flows := make([]*genFlow, nk)
	for k := range flows {
		cat := r.IntN(6)
		if emphasis == 2 && r.IntN(3) > 0 {
			cat = []int{catInter, catInterIngDrop}[r.IntN(2)]
		}
		if emphasis == 0 && r.IntN(3) == 0 {
			cat = catInter
		}
		if longRetry && k == 0 {
			cat = catInter
		}
		pl.Cfg[fmt.Sprintf("cat%d", k)] = int64(cat)
		pl.Cfg[fmt.Sprintf("v6%d", k)] = int64(r.IntN(2))
		if keymode && k%2 == 1 {
			pl.Cfg[fmt.Sprintf("v6%d", k)] = pl.Cfg[fmt.Sprintf("v6%d", k-1)] // the pair shares its addresses
		}
		f := &genFlow{cat: cat, start: uint32(1 + r.IntN(1000))}
		if catNeedsCorrelation(cat) && r.IntN(2) == 0 {
			f.startOff = [2]uint32{uint32(r.IntN(4)), uint32(r.IntN(12))}
		}
		for i := range f.rates {
			f.rates[i] = []uint64{0, 1, 7, 1000, 123456789, 1 << 40}[r.IntN(6)]
			f.base[i] = []uint64{0, 1, 500, 1 << 33}[r.IntN(4)]
		}
		flows[k] = f
	}
	now := bubbleEpoch
	n := 8 + r.IntN(25)
	if tier == "thorough" {
		n = 8 + r.IntN(60)
	}
	tcp := 0
	forceNode := -1
	// mkRec makes the next record of key k (commit: the generator's picture of the flow moves on)
	mkRec := func(k int, commit bool) (plan.Op, bool) {
		saved := *flows[k]
		savedTCP := tcp
		f := flows[k]
		node := r.IntN(2)
		if forceNode >= 0 {
			node = forceNode
		}
		if !catNeedsCorrelation(f.cat) {
			node = nodeSingle
		}
		ni := node
		if node == nodeSingle {
			ni = 0
		}
		if !f.exists {
			*f = genFlow{cat: f.cat, start: f.start, startOff: f.startOff, rates: f.rates, base: f.base}
			// a new flow record starts a fresh reporting history
			f.lastEnd = [2]uint32{}
		}
		nodeStart := f.start + f.startOff[ni]
		prev := f.lastEnd[ni]
		if prev < nodeStart {
			prev = nodeStart
		}
		end := prev + uint32(1+r.IntN(20))
		if emphasis == 0 && prev < 1<<30 && jr.IntN(40) == 0 && f.rates[0] < 1<<30 && f.rates[1] < 1<<30 && f.rates[2] < 1<<30 && f.rates[3] < 1<<30 {
			// a node that reports again after a very long time (or whose clock was set): the end time
			// moves by 2^31 seconds or more, still a later end time like any other
			end = prev + 1<<31 + uint32(jr.IntN(5))
		}
		if r.IntN(4) == 0 {
			// try to tie with / undercut the other node's latest end time
			other := f.lastEnd[1-ni]
			if other > prev {
				end = other - uint32(r.IntN(2))
				if end <= prev {
					end = prev + 1
				}
			}
		}
		f.lastEnd[ni] = end
		if node == nodeSingle {
			f.lastEnd[1] = end
		}
		dt := uint64(end - f.start)
		tot := [4]int64{}
		for j := range tot {
			tot[j] = int64(f.base[j] + f.rates[j]*dt)
		}
		tcp++
		op := plan.Op{K: "rec", A: int64(k), B: int64(node), S: fmt.Sprintf("STATE-%d", tcp), D: int64(r.IntN(1 << 20)),
			N: []int64{int64(nodeStart), int64(end), tot[0], tot[1], tot[2], tot[3], int64(r.IntN(1000)), int64(r.IntN(50))}}
		if r.IntN(8) == 0 {
			op.N[6] = int64(r.Uint64() >> 3)
		}
		if !f.exists {
			f.exists = true
			f.active, f.inac = now.Add(A), now.Add(I)
			f.ready = !catNeedsCorrelation(f.cat)
			f.seen = [2]bool{}
		} else {
			f.inac = now.Add(I)
		}
		if node != nodeSingle {
			f.seen[node] = true
			if f.seen[0] && f.seen[1] {
				f.ready = true
			}
		}
		if !commit {
			*flows[k] = saved
			tcp = savedTCP
		}
		return op, true
	}
	deadlines := func() []time.Time {
		var ds []time.Time
		for _, f := range flows {
			if f.exists {
				ds = append(ds, f.active, f.inac)
			}
		}
		sort.Slice(ds, func(i, j int) bool { return ds[i].Before(ds[j]) })
		return ds
	}
	scan := func(failIdx map[int]bool) {
		type due struct {
			k int
			d time.Time
		}
		var ds []due
		for k, f := range flows {
			if f.exists {
				d := f.active
				if f.inac.Before(d) {
					d = f.inac
				}
				if !d.After(now) {
					ds = append(ds, due{k, d})
				}
			}
		}
		sort.Slice(ds, func(i, j int) bool { return ds[i].d.Before(ds[j].d) })
		call := 0
		for _, d := range ds {
			f := flows[d.k]
			if !f.ready {
				f.retries++
				if f.retries > maxRetries {
					f.exists = false
				} else {
					f.active, f.inac = now.Add(A), now.Add(I)
				}
				continue
			}
			if failIdx[call] {
				return
			}
			call++
			if !f.inac.After(now) {
				f.exists = false
			} else if !f.active.After(now) {
				f.active = now.Add(A)
			}
		}
	}
	for i := 0; i < n; i++ {
		x := r.IntN(100)
		wRec, wAdv, wScan := 46, 25, 18
		switch emphasis {
		case 1:
			wRec, wAdv, wScan = 27, 35, 30
		case 2:
			wRec, wAdv, wScan = 37, 30, 26
		}
		switch {
		case x < wRec:
			k := r.IntN(nk)
			if !flows[k].exists && r.IntN(8) == 0 {
				// the first record of a flow arrives without an element the process needs: refused,
				// and nothing of it may stay behind
				op, _ := mkRec(k, false)
				op.X = aggOmittable[r.IntN(len(aggOmittable))]
				pl.Ops = append(pl.Ops, op)
				continue
			}
			op, _ := mkRec(k, true)
			if r.IntN(4) == 0 && nk > 1 {
				// a message that carries records of several 5-tuples
				bundle := plan.Op{K: "recs", F: []plan.Op{op}}
				if r.IntN(3) == 0 {
					// ... and a further record of the same 5-tuple in the same message: the next report of
					// that flow, from either node (both nodes of an inter-node flow in one message too)
					op1, _ := mkRec(k, true)
					bundle.F = append(bundle.F, op1)
				}
				for _, k2 := range r.Perm(nk) {
					if k2 != k && len(bundle.F) < 3 && pl.Cfg[fmt.Sprintf("v6%d", k2)] == pl.Cfg[fmt.Sprintf("v6%d", k)] && r.IntN(3) > 0 {
						op2, _ := mkRec(k2, true)
						bundle.F = append(bundle.F, op2)
					}
				}
				if len(bundle.F) > 1 {
					// records of different 5-tuples in any order; the records of one 5-tuple keep theirs
					same := bundle.F[0].A == bundle.F[1].A
					first, second := bundle.F[0], bundle.F[1]
					r.Shuffle(len(bundle.F), func(a, b int) { bundle.F[a], bundle.F[b] = bundle.F[b], bundle.F[a] })
					if same {
						var idx []int
						for i, o := range bundle.F {
							if o.A == first.A {
								idx = append(idx, i)
							}
						}
						if len(idx) == 2 {
							bundle.F[idx[0]], bundle.F[idx[1]] = first, second
						}
					}
					pl.Ops = append(pl.Ops, bundle)
					continue
				}
			}
			pl.Ops = append(pl.Ops, op)
		case x < wRec+wAdv:
			var d time.Duration
			ds := deadlines()
			switch c := r.IntN(8); {
			case c == 0:
				d = 0
			case c == 1:
				d = time.Nanosecond
			case c <= 4 && len(ds) > 0:
				// relative to a pending deadline: exactly, just before, just after
				t := ds[r.IntN(len(ds))]
				if r.IntN(2) == 0 {
					t = ds[0]
				}
				d = t.Sub(now) + []time.Duration{0, 0, -time.Nanosecond, time.Nanosecond, time.Millisecond}[r.IntN(5)]
			case c == 5:
				d = []time.Duration{A, I, 2 * A, A + I}[r.IntN(4)]
			default:
				d = time.Duration(r.Int64N(int64(2 * (A + I))))
			}
			if d < 0 {
				d = 0
			}
			now = now.Add(d)
			pl.Ops = append(pl.Ops, plan.Op{K: "adv", A: int64(d)})
		case x < wRec+wAdv+wScan:
			op := plan.Op{K: "scan", B: int64(r.IntN(2))}
			if r.IntN(4) == 0 {
				// exporting takes time: flows can become due while the scan is under way
				m := A
				if I < m {
					m = I
				}
				op.D = int64([]time.Duration{time.Millisecond, m / 3, m / 2, m}[r.IntN(4)])
			}
			fail := map[int]bool{}
			if r.IntN(4) == 0 {
				idx := r.IntN(3)
				op.N = append(op.N, int64(idx))
				fail[idx] = true
			}
			pl.Ops = append(pl.Ops, op)
			scan(fail)
		case x < wRec+wAdv+wScan+3:
			pl.Ops = append(pl.Ops, plan.Op{K: "resetall"})
		default:
			pl.Ops = append(pl.Ops, plan.Op{K: "query", A: int64(r.IntN(3))})
		}
	}
	if longRetry {
		// a flow between two nodes that only one node ever reports is tried again at each of its
		// deadlines, MaxRetries times, and dropped at the next one - also when MaxRetries is large
		step := func(d time.Duration) {
			if d < 0 {
				d = 0
			}
			now = now.Add(d)
			pl.Ops = append(pl.Ops, plan.Op{K: "adv", A: int64(d)}, plan.Op{K: "scan"})
			scan(nil)
		}
		step(2 * (A + I)) // whatever both nodes reported leaves here
		if !flows[0].exists {
			forceNode = 0
			op, _ := mkRec(0, true)
			pl.Ops = append(pl.Ops, op)
		}
		for j := 0; j < maxRetries+4 && flows[0].exists; j++ {
			step(deadlines()[0].Sub(now) + time.Duration(1+r.IntN(3))) // strictly past the deadline
		}
		forceNode = -1
	}
	if emphasis == 2 {
		// One inter-node flow whose source node could not resolve the source Pod: its records name no
		// Pod at all (aggRec.Unres). Such a record and one of the destination node are both sides. The
		// per-node statistics of these records are not judged by this check (C05's clauses are counted
		// only). A stream of its own keeps the plans of older seeds as they were.
		r3 := rand.New(rand.NewPCG(seed, 0xc07a))
		if r3.IntN(4) == 0 {
			var cand []int
			for k, f := range flows {
				if f.cat == catInter || f.cat == catInterIngDrop {
					cand = append(cand, k)
				}
			}
			if len(cand) > 0 {
				pl.Cfg["unres_key"] = int64(1 + cand[r3.IntN(len(cand))])
			}
		}
	}
	if emphasis == 2 && pl.Cfg["unres_key"] == 0 {
		// One inter-node flow whose 5-tuple is taken over by a replacement Pod on the source node: every
		// other record of that node names another source Pod. They are records of one node all the same -
		// the flow stays withheld until the destination node is seen. A stream of its own again.
		r4 := rand.New(rand.NewPCG(seed, 0xc07b))
		if r4.IntN(4) == 0 {
			var cand []int
			for k, f := range flows {
				if f.cat == catInter || f.cat == catInterIngDrop {
					cand = append(cand, k)
				}
			}
			if len(cand) > 0 {
				pl.Cfg["podswap_key"] = int64(1 + cand[r4.IntN(len(cand))])
			}
		}
	}
	if r.IntN(5) == 0 {
		// records through the built-in worker pool, workers interleaved by the scheduler
		pl.Cfg["pool"] = 1
		genSchedule(r, pl, 6, 3000)
		return pl
	}
	genSchedule(r, pl, 0, 0)
	return pl
}

func runAgg(pl *plan.Plan, out *plan.Outcome, prop string) {
	env := newEnv(pl, out, keepLogFlag)
	var sess *aggSession
	env.Go("driver", func() {
		s, err := newAggSession(env, prop)
		if err != nil {
			out.Trouble = err.Error()
			return
		}
		sess = s
		s.run(pl.Ops)
	})
	if res := env.Run(); res != "done" && out.Trouble == "" {
		env.runEnded(res, out)
	}
	// keep the clauses that restate this property's sentence
	prefix := strings.ToLower(prop) + "-"
	kept := out.Violations[:0]
	for _, v := range out.Violations {
		if strings.HasPrefix(v.Clause, prefix) || v.Clause == "panic" {
			kept = append(kept, v)
		} else {
			out.Add("probe.violation_of_sibling_property."+v.Clause, 1)
		}
	}
	out.Violations = kept
	c := out.Counters
	switch prop {
	case "C05":
		out.Nontrivial = c["agg.records"] >= 4
	case "C06":
		out.Nontrivial = c["agg.exports"] >= 2 || c["fault.callback_error"] > 0
	case "C07":
		out.Nontrivial = c["probe.not_ready_retry"] > 0 || c["agg.records"] >= 3
	}
	if sess != nil {
		out.Sample = map[string]any{"ops": len(pl.Ops), "records": c["agg.records"], "scans": c["agg.scans"], "exports": c["agg.exports"], "flows_at_end": len(sess.model.Flows)}
	}
}
