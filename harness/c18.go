package harness

import (
	"bytes"
	"crypto/tls"
	"crypto/x509"
	"fmt"
	"math/rand/v2"
	"net"
	"time"

	"github.com/vmware/go-ipfix/pkg/collector"
	"github.com/vmware/go-ipfix/pkg/entities"
	"github.com/vmware/go-ipfix/pkg/exporter"
	"github.com/vmware/go-ipfix/pkg/registry"
	"github.com/vmware/go-ipfix/pkg/verifsim/simnet"

	"verif/oracle/ipfixref"
	"verif/sim/plan"
)

// C18 — encrypted transports authenticate the peer and never fall back to plaintext.
//
// A run is 1-3 sessions in one bubble; the bubble's clock is moved to a chosen day
// before each session (certificates are valid from/until fixed days, see certs.go).
// Plan ops: {K:"session", A:peer kind, B:proto (0 tls, 1 dtls), C:server certificate, D:day,
//   N:[serverName mode (0 unset, 1 matching DNS name, 2 mismatching, 3 the address dialled in brackets, 4 another address), client certificate (0 none,
//      1 trusted, 2 other CA, 3 expired), collector client-CA (0 unset, 1 set), peer max TLS version (1,2,3)]}
// peer kinds: 0 real encrypted collector; 1 harness TLS server capped at a version; 2 plaintext
// sender against an encrypted collector; 3 plaintext listener against a TLS/DTLS exporter.
// Cfg reuse=1: all sessions use one *ExporterTLSClientConfig object, edited in place.

func init() {
	register(&Prop{
		ID: "C18", Gen: genC18, Run: runC18, Quick: 700, Thorough: 150000,
		Real: []string{"pkg/exporter InitExportingProcess TLS/DTLS client configuration (createClientConfig, dtls.Config)", "pkg/collector TLS server configuration (createServerConfig, client-certificate enforcement) and DTLS listener", "crypto/tls, crypto/x509, pion/dtls handshakes over the simulated network", "message path exporter -> collector for the delivered-messages clauses"},
		Stub: []string{"OS sockets (simnet)", "wall clock (synctest bubble; moved across certificate validity windows = clock skew)", "tls.Dial's ServerName defaulting (simnet.TlsDial)", "adversarial peers: harness TLS server with capped version, plaintext sender, plaintext listener"},
		Rule: "configuration matrix sampled by seed: server certificate {trusted, other CA, self-signed, expires day 20, valid from day 10, wrong SAN, no SAN, DNS-SAN only} x ServerName {unset, matching, mismatching, the dialled address in brackets, another address} x collector certificate file {leaf, leaf + issuer, leaf + a home-made certificate for the names the leaf lacks} x client certificate {none, trusted, other CA, expired} x collector client-CA {set, unset} x {tls, dtls} x handshake day {0, 15, 25} x peer max version {1.1, 1.2, 1.3} x collector certificate file {leaf, leaf + issuing CA}, plus plaintext peers, re-use of one client-configuration object across sessions, and 2-3 exporting processes with different configurations (CA, name, client certificate, connection-check interval) one after the other against one long-lived collector; every session is non-trivial; distinct = distinct configuration cell sequence",
	})
}

var srvCertNames = []string{"trusted", "other-ca", "self-signed", "expires-day20", "valid-from-day10", "wrong-san", "no-san", "dns-san-only"}

func genC18(seed uint64, tier string) *plan.Plan {
	r := rand.New(rand.NewPCG(seed, 0xc18))
	pl := &plan.Plan{Cfg: map[string]int64{}}
	pl.Cfg["v6"] = int64(r.IntN(2))
	pl.Cfg["idle_ns"] = int64(90 * 24 * time.Hour) // the clock is moved by whole days
	pl.Cfg["bundle"] = int64(r.IntN(2))            // the collector's certificate file holds the leaf alone / leaf + issuing CA
	if pl.Cfg["bundle"] == 1 && seed%3 == 0 {
		pl.Cfg["bundle"] = 2 // ... / leaf + a home-made certificate for the names the leaf lacks
	}
	n := 1 + r.IntN(3)
	if r.IntN(3) == 0 {
		pl.Cfg["reuse"] = 1
		n = 2 + r.IntN(2)
	}
	day := int64(0)
	// with a re-used configuration object most sessions keep the same protocol / ServerName mode /
	// client certificate (the application edits nothing between them) while the peer changes
	reuse := pl.Cfg["reuse"] == 1
	baseProto, baseSN, baseCli := int64(r.IntN(2)), int64(r.IntN(4)), int64(r.IntN(4))
	var prev *plan.Op
	for i := 0; i < n; i++ {
		kind := []int64{0, 0, 0, 0, 0, 1, 2, 3}[r.IntN(8)]
		proto := int64(r.IntN(2))
		if reuse && r.IntN(10) < 8 {
			kind, proto = 0, baseProto
		}
		if kind == 1 {
			proto = 0
		}
		cert := int64(r.IntN(len(srvCertNames)))
		if r.IntN(3) == 0 || (reuse && r.IntN(2) == 0) {
			cert = 0
		}
		d := []int64{0, 15, 25}[r.IntN(3)]
		if d < day {
			d = day
		}
		day = d
		host := int64(0)
		if r.IntN(3) == 0 {
			host = 1 // a second collector address for which no certificate of the zoo is valid
		}
		sn, cli := int64(r.IntN(5)), int64(r.IntN(4))
		if reuse && r.IntN(10) < 8 {
			sn, cli = baseSN, baseCli
			if prev != nil && r.IntN(2) == 0 {
				host = 1 - prev.N[4]
			}
		}
		op := plan.Op{K: "session", A: kind, B: proto, C: cert, D: d, N: []int64{sn, cli, int64(r.IntN(2)), int64(1 + r.IntN(3)), host}}
		if !reuse && pl.Cfg["v6"] == 0 && r.IntN(12) == 0 {
			// a collector that is configured by host name, ServerName unset
			op.A, op.B = 6, 0
			op.N[4] = 0
		} else if !reuse && d < 20 && r.IntN(14) == 0 {
			// an exporter that paces its handshake across the end of its certificate's validity
			op.A, op.B = 7, 0
			op.N[4] = 0
		} else if !reuse && r.IntN(12) == 0 {
			// a collector whose client-CA setting holds no usable certificate, started more than once
			op.A, op.B = 5, 0
			op.N[4] = 0
		} else if !reuse && r.IntN(4) == 0 {
			// one long-lived TLS collector, 2-3 exporting processes of the same application one after
			// the other, each with its own configuration (CA, expected name, client certificate); the
			// clock may move on between them
			op.A, op.B = 4, 0
			op.C = []int64{0, 0, 1, 3, 7}[r.IntN(5)]
			op.N[4] = 0
			for j, k := 0, 2+r.IntN(2); j < k; j++ {
				ca := int64(r.IntN(2))
				if j == 0 && r.IntN(4) > 0 {
					// usually the first one is in order
					ca = 0
					if op.C == 1 {
						ca = 1
					}
				}
				adv := int64(0)
				if j > 0 && r.IntN(3) == 0 {
					adv = int64(1 + r.IntN(12))
				}
				op.F = append(op.F, plan.Op{K: "exp", A: ca, B: int64(r.IntN(3)), C: int64(r.IntN(4)), D: []int64{10, 1000, 3600000}[r.IntN(3)], T: int(adv)})
				day += adv
			}
		}
		pl.Ops = append(pl.Ops, op)
		prev = &pl.Ops[len(pl.Ops)-1]
	}
	genSchedule(r, pl, 0, 0)
	return pl
}

type c18Expect struct {
	mustRefuse    bool // InitExportingProcess must fail
	mustEstablish bool // everything is in order: the session must work and deliver
	zeroDelivered bool // nothing from this exporter may be delivered
	why           string
}

func c18Expectation(proto, cert, day, snMode, cliCert, cliCA int, v6 bool, hostB bool) c18Expect {
	return c18ExpectationCA(proto, cert, day, snMode, cliCert, cliCA, v6, hostB, 0)
}

// expCA: the CA the exporter is configured with (0: the CA of the zoo, 1: the other CA).
// c18ServerPEM is the collector's certificate file: the leaf alone, the leaf and its issuing CA, or
// the leaf followed by a home-made certificate that lists what the leaf may be lacking (whatever
// follows the first certificate is at most a candidate intermediate: names and trust are the leaf's).
func c18ServerPEM(env *Env, srv certPair, z *zoo) []byte {
	switch cfgOr(env.Plan, "bundle", 0) {
	case 1:
		return srv.serverPEM(true)
	case 2:
		env.Count("fault.server_certificate_followed_by_a_decoy", 1)
		return append(append([]byte(nil), srv.CertPEM...), z.Decoy.CertPEM...)
	}
	return srv.CertPEM
}

func c18ExpectationCA(proto, cert, day, snMode, cliCert, cliCA int, v6 bool, hostB bool, expCA int) c18Expect {
	chains := (cert != 1 && cert != 2 && expCA == 0) || (cert == 1 && expCA == 1)
	validTime := true
	if cert == 3 && day >= 20 {
		validTime = false
	}
	if cert == 4 && day < 10 {
		validTime = false
	}
	hasIPSAN := (cert == 0 || cert == 1 || cert == 3 || cert == 4) && !hostB // IP SANs are those of host A
	hasDNSSAN := cert == 0 || cert == 1 || cert == 3 || cert == 4 || cert == 7
	e := c18Expect{}
	switch {
	case !chains:
		e.mustRefuse, e.why = true, "server certificate does not chain to the configured CA"
	case !validTime:
		e.mustRefuse, e.why = true, "server certificate is outside its validity period"
	case snMode == 2:
		e.mustRefuse, e.why = true, "server certificate does not match the expected name"
	case snMode == 4:
		e.mustRefuse, e.why = true, "the expected name is an address that the server certificate does not list"
	case snMode == 1 && !hasDNSSAN:
		e.mustRefuse, e.why = true, "server certificate has no matching DNS name"
	case snMode == 3 && !hasIPSAN:
		e.mustRefuse, e.why = true, "the expected name is the collector's address (as a bracketed literal) and the server certificate has no SAN for that address"
	case snMode == 0 && proto == 0 && !hasIPSAN:
		e.mustRefuse, e.why = true, "server certificate has no SAN for the address dialled"
	}
	if proto == 0 && cliCA == 1 {
		cliOK := cliCert == 1 || (cliCert == 3 && day < 20)
		if !cliOK {
			e.zeroDelivered = true
			if e.why == "" {
				e.why = "the exporter presents no certificate issued by the collector's client CA"
			}
		}
	}
	if !e.mustRefuse && !e.zeroDelivered {
		// DTLS with no ServerName: pion verifies chain and validity only; that cell is allowed either way
		if proto == 1 && snMode == 0 && !hasDNSSAN {
			return e
		}
		e.mustEstablish = true
	}
	return e
}

func runC18(pl *plan.Plan, out *plan.Outcome) {
	env := newEnv(pl, out, keepLogFlag)
	z := getZoo()
	v6 := cfgOr(pl, "v6", 0) == 1
	host := "10.0.0.1"
	if v6 {
		host = "fd00::1"
	}
	srvCerts := []certPair{z.SrvGood, z.SrvOtherCA, z.SrvSelf, z.SrvExpired, z.SrvFuture, z.SrvWrongSAN, z.SrvNoSAN, z.SrvNameOnly}
	cliCerts := []certPair{{}, z.CliGood, z.CliOtherCA, z.CliExpired}
	reuse := cfgOr(pl, "reuse", 0) == 1
	shared := &exporter.ExporterTLSClientConfig{}
	cells := ""
	lastName, lastCert := "", []byte(nil)
	env.Go("driver", func() {
		for si, op := range pl.Ops {
			if op.K != "session" {
				continue
			}
			n := make([]int64, 5)
			copy(n, op.N)
			hostB := n[4] == 1
			kind, proto, cert, day := int(op.A), int(op.B)&1, int(op.C)%len(srvCerts), int(op.D)
			snMode, cliCert, cliCA, maxV := int(n[0])%5, int(n[1])%4, int(n[2])&1, int(n[3])
			cells += fmt.Sprintf("[%d %d %d %d %d %d %d %d %v]", kind, proto, cert, day, snMode, cliCert, cliCA, maxV, hostB)
			for _, x := range op.F {
				cells += fmt.Sprintf("(%d %d %d %d %d)", x.A, x.B, x.C, x.D, x.T)
			}
			// move the clock (both parties share it: certificates are judged at this instant)
			target := bubbleEpoch.AddDate(0, 0, day).Add(time.Duration(si) * time.Hour)
			if d := target.Sub(time.Now()); d > 0 {
				env.Sleep(d)
			}
			// the day certificates are judged on is the clock's, whatever the plan says (an earlier
			// session may have moved the clock further)
			day = int(time.Since(bubbleEpoch) / (24 * time.Hour))
			port := 4739 + si
			h := host
			if hostB {
				h = "10.0.0.2"
				if v6 {
					h = "fd00::2"
				}
			}
			addr := net.JoinHostPort(h, fmt.Sprint(port))
			where := fmt.Sprintf("session %d (%s to %s, peer kind %d, server cert %s, day %d, serverName mode %d, client cert %d, client CA %d)", si, []string{"tls", "dtls"}[proto], addr, kind, srvCertNames[cert], day, snMode, cliCert, cliCA)
			env.Logf("%s", where)
			// exporter configuration
			cfg := &exporter.ExporterTLSClientConfig{}
			if reuse {
				cfg = shared
				env.Count("probe.client_config_object_reused", 1)
			}
			// The application writes a field only when its own intended value changes (a re-used
			// configuration object is edited in place, it is not re-initialised): whatever the
			// library may have stored in the object stays there.
			// mode 3: the address itself, written the way it appears in a host:port string
			// mode 4: an address that is not the collector's (the collector is reached through a forwarded
			// port and the certificate is to be that of the machine behind it); no certificate of the zoo lists it
			wantName := []string{"", serverDNSName, "wrong.example", "[" + h + "]", map[bool]string{false: "10.10.10.10", true: "fd00::99"}[v6]}[snMode]
			var wantCert, wantKey []byte
			if cliCert > 0 {
				wantCert, wantKey = cliCerts[cliCert].CertPEM, cliCerts[cliCert].KeyPEM
			}
			if !reuse || si == 0 || wantName != lastName {
				cfg.ServerName = wantName
			}
			if !reuse || si == 0 || string(wantCert) != string(lastCert) {
				cfg.CertData, cfg.KeyData = wantCert, wantKey
			}
			cfg.CAData = z.CA.PEM
			lastName, lastCert = wantName, wantCert
			ein := exporter.ExporterInput{CollectorAddress: addr, CollectorProtocol: []string{"tcp", "udp"}[proto], ObservationDomainID: uint32(900 + si), TLSClientConfig: cfg, IsIPv6: v6, TempRefTimeout: 3600, CheckConnInterval: time.Hour}
			switch kind {
			case 0:
				c18RealCollector(env, where, addr, proto, srvCerts[cert], cliCA == 1, z, ein, c18Expectation(proto, cert, day, snMode, cliCert, cliCA, v6, hostB), uint32(900+si))
			case 1:
				c18CappedServer(env, where, addr, maxV, z, ein)
			case 7:
				c18PacedHandshake(env, where, addr, z, uint32(900+si), day)
			case 2:
				c18PlaintextSender(env, where, addr, proto, z, uint32(900+si))
			case 3:
				c18PlaintextListener(env, where, addr, proto, ein)
			case 6:
				// The collector is configured by host name and no ServerName is given: the expected
				// name is that host name, whatever address it resolves to.
				if v6 {
					break
				}
				named := net.JoinHostPort("localhost", fmt.Sprint(port))
				listen := net.JoinHostPort("127.0.0.1", fmt.Sprint(port))
				variant := int(n[3]) % 3
				srv := []certPair{z.SrvLoopIPOnly, z.SrvLoopNameOnly, z.SrvLoopBoth}[variant]
				e := c18Expect{mustEstablish: true}
				if variant == 0 {
					e = c18Expect{mustRefuse: true, why: "the collector was configured as \"localhost\" and its certificate names only the address 127.0.0.1"}
				}
				cfg.ServerName = ""
				cfg.CertData, cfg.KeyData = nil, nil
				ein.CollectorAddress = named
				ein.CollectorProtocol = "tcp"
				env.Count("c18.collector_configured_by_host_name", 1)
				c18RealCollector(env, where+fmt.Sprintf(" [collector configured as %s, listening on %s, certificate variant %d]", named, listen, variant), listen, 0, srv, false, z, ein, e, uint32(900+si))
			case 5:
				c18UnusableClientCA(env, where, addr, z, ein, uint32(900+si), int(n[3]), n[2]&1 == 1 && n[1]%2 == 0)
			case 4:
				c18SharedCollector(env, where, addr, srvCerts[cert], cert, cliCA, day, v6, z, ein, op.F, uint32(900+si), cliCerts)
			}
			if len(out.Violations) > 0 {
				return
			}
		}
	})
	if res := env.Run(); res != "done" && out.Trouble == "" {
		env.runEnded(res, out)
	}
	out.Nontrivial = true
	h := fnvNew()
	h.add([]byte(cells))
	out.Hash = h.hex()
	out.Sample = map[string]any{"cells": cells, "reuse": reuse}
}

// startCollector starts a real collector and a consumer; stop() returns what was delivered.
func c18StartCollector(env *Env, cin collector.CollectorInput) (stop func() []dMsg, err error) {
	stop, _, err = c18StartCollectorPeek(env, cin)
	return stop, err
}

// c18StartCollectorPeek additionally returns peek(): the messages delivered so far.
func c18StartCollectorPeek(env *Env, cin collector.CollectorInput) (stop func() []dMsg, peek func() []dMsg, err error) {
	cp, err := collector.InitCollectingProcess(cin)
	if err != nil {
		return nil, nil, err
	}
	var got []dMsg
	peek = func() []dMsg { return got }
	done := make(chan struct{})
	env.Go("collector", func() { cp.Start() })
	env.Go("consumer", func() {
		defer close(done)
		for {
			var msg *entities.Message
			var ok bool
			Block("consume", func() { msg, ok = <-cp.GetMsgChan() })
			if !ok {
				return
			}
			got = append(got, captureMsg(msg))
		}
	})
	env.Sleep(time.Millisecond)
	return func() []dMsg {
		if cin.Protocol == "udp" && cin.IsEncrypted {
			// the DTLS server blocks in Accept until a client shows up; nudge it so that Stop can finish
			if c, err := env.Net.DialUDP(&net.UDPAddr{IP: net.ParseIP(hostOf(cin.Address)), Port: portOf(cin.Address)}); err == nil {
				c.Write([]byte{22, 0xfe, 0xfd, 0, 0, 0, 0, 0, 0, 0, 0, 0, 1, 0})
				c.Close()
			}
		}
		stopped := make(chan struct{})
		env.Go("stopper", func() {
			defer close(stopped)
			Block("stop", func() { cp.Stop() })
		})
		// Stop of a DTLS collector that never accepted a connection cannot finish (the library
		// blocks in Accept); give it bounded simulated time and go on
		waitOrTimeout(stopped, 2*time.Minute)
		cp.CloseMsgChan()
		waitOrTimeout(done, time.Second)
		return got
	}, peek, nil
}

func waitOrTimeout(ch chan struct{}, d time.Duration) bool {
	ok := false
	Block("wait", func() {
		t := time.NewTimer(d)
		defer t.Stop()
		select {
		case <-ch:
			ok = true
		case <-t.C:
		}
	})
	return ok
}

func hostOf(addr string) string { h, _, _ := net.SplitHostPort(addr); return h }
func portOf(addr string) int {
	_, p, _ := net.SplitHostPort(addr)
	var n int
	fmt.Sscan(p, &n)
	return n
}

// sendSome sends one template and two data sets; returns how many sends succeeded.
func c18SendSome(ep *exporter.ExportingProcess) int {
	ie1, _ := registry.GetInfoElement("sourceTransportPort", registry.IANAEnterpriseID)
	set := entities.NewSet(false)
	set.PrepareSet(entities.Template, 256)
	set.AddRecord([]entities.InfoElementWithValue{entities.NewUnsigned16InfoElement(ie1, 0)}, 256)
	ok := 0
	var err error
	Block("send", func() { _, err = ep.SendSet(set) })
	if err == nil {
		ok++
	}
	for i := 0; i < 2; i++ {
		set.ResetSet()
		set.PrepareSet(entities.Data, 256)
		set.AddRecord([]entities.InfoElementWithValue{entities.NewUnsigned16InfoElement(ie1, uint16(1000+i))}, 256)
		Block("send", func() { _, err = ep.SendSet(set) })
		if err == nil {
			ok++
		}
	}
	return ok
}

func c18RealCollector(env *Env, where, addr string, proto int, srv certPair, clientCA bool, z *zoo, ein exporter.ExporterInput, e c18Expect, domain uint32) {
	cin := collector.CollectorInput{Address: addr, Protocol: []string{"tcp", "udp"}[proto], MaxBufferSize: 65535, IsEncrypted: true, ServerCert: c18ServerPEM(env, srv, z), ServerKey: srv.KeyPEM, TemplateTTL: 7200}
	if clientCA && proto == 0 {
		cin.CACert = z.CA.PEM
	}
	stop, err := c18StartCollector(env, cin)
	if err != nil {
		env.Out.Trouble = "collector: " + err.Error()
		return
	}
	var ep *exporter.ExportingProcess
	var ierr error
	inited := make(chan struct{})
	env.Go("exporter-init", func() {
		defer close(inited)
		Block("init", func() { ep, ierr = exporter.InitExportingProcess(ein) })
	})
	if !waitOrTimeout(inited, 10*time.Minute) {
		ierr = fmt.Errorf("InitExportingProcess did not return within 10 simulated minutes")
		env.Count("probe.init_hung", 1)
	}
	sent := 0
	if ierr == nil && ep != nil {
		env.Count("c18.sessions_established", 1)
		sent = c18SendSome(ep)
		env.Sleep(2 * time.Second)
		Block("close", func() { ep.CloseConnToCollector() })
	} else {
		env.Count("c18.sessions_refused", 1)
	}
	env.Sleep(time.Second)
	got := stop()
	mine := 0
	for _, d := range got {
		if d.Domain == domain {
			mine++
		}
	}
	env.Logf("%s -> init err=%v sent=%d delivered=%d", where, ierr != nil, sent, mine)
	switch {
	case e.mustRefuse && ierr == nil:
		env.Violate("session-with-unverifiable-server", []string{"tls", "dtls"}[proto], "%s: %s, but InitExportingProcess succeeded (and %d messages were delivered)", where, e.why, mine)
	case e.zeroDelivered && mine > 0:
		env.Violate("delivered-from-unauthenticated-exporter", "", "%s: %s, but the collector delivered %d messages from it", where, e.why, mine)
	case e.mustEstablish && ierr != nil:
		env.Violate("valid-session-refused", []string{"tls", "dtls"}[proto], "%s: every certificate is acceptable, but InitExportingProcess failed: %v", where, ierr)
	case e.mustEstablish && mine != sent:
		env.Violate("valid-session-lost-messages", []string{"tls", "dtls"}[proto], "%s: %d messages sent over the established session, %d delivered", where, sent, mine)
	}
}

// c18UnusableClientCA: the collector is configured to authenticate exporters (a client CA is set)
// but the setting holds no usable certificate. Such a collector cannot authenticate anybody, so
// whatever the application does with it - here: Start, which fails, and Start again - it must not
// deliver messages from any exporter.
func c18UnusableClientCA(env *Env, where, addr string, z *zoo, ein exporter.ExporterInput, domain uint32, variant int, keyMismatch bool) {
	bad := [][]byte{{}, []byte("-----BEGIN CERTIFICATE-----\nMIIB\n-----END CERTIFICATE-----\n"), []byte("not a certificate")}[variant%3]
	cin := collector.CollectorInput{Address: addr, Protocol: "tcp", MaxBufferSize: 65535, IsEncrypted: true,
		ServerCert: z.SrvGood.CertPEM, ServerKey: z.SrvGood.KeyPEM, CACert: bad, TemplateTTL: 7200}
	if keyMismatch {
		// ... or whose private key does not belong to its certificate (the client CA is in order)
		cin.CACert, cin.ServerKey = z.CA.PEM, z.SrvNameOnly.KeyPEM
	}
	cp, err := collector.InitCollectingProcess(cin)
	if err != nil {
		env.Count("c18.unusable_client_ca_refused_at_init", 1)
		return
	}
	env.Count("fault.collector_started_twice_with_unusable_client_ca", 1)
	var got []dMsg
	consumed := make(chan struct{})
	env.Go("consumer", func() {
		defer close(consumed)
		for {
			var msg *entities.Message
			var ok bool
			Block("consume", func() { msg, ok = <-cp.GetMsgChan() })
			if !ok {
				return
			}
			got = append(got, captureMsg(msg))
		}
	})
	for i := 0; i < 2+variant%2; i++ {
		done := make(chan struct{})
		env.Go("collector-start", func() {
			defer close(done)
			cp.Start()
		})
		waitOrTimeout(done, time.Second)
	}
	cfg := *ein.TLSClientConfig
	cfg.ServerName = serverDNSName
	cfg.CAData = z.CA.PEM
	in := ein
	in.TLSClientConfig = &cfg
	in.ObservationDomainID = domain
	var ep *exporter.ExportingProcess
	var ierr error
	inited := make(chan struct{})
	env.Go("exporter-init", func() {
		defer close(inited)
		Block("init", func() { ep, ierr = exporter.InitExportingProcess(in) })
	})
	if !waitOrTimeout(inited, 10*time.Minute) {
		ierr = fmt.Errorf("InitExportingProcess did not return")
	}
	sent := 0
	if ierr == nil && ep != nil {
		sent = c18SendSome(ep)
		env.Sleep(2 * time.Second)
		Block("close", func() { ep.CloseConnToCollector() })
	}
	// ... and a peer that does not encrypt at all: security settings are present, whatever state they are in
	pt := gTemplate{Dom: domain + 1, ID: 256, Fields: []gField{{F: ipfixref.Field{ID: 7, Len: 2}, Known: true, Width: 2}}}
	var pc net.Conn
	var perr error
	Block("dial", func() { pc, perr = env.Net.Dial("tcp", addr) })
	if perr == nil {
		for _, m := range [][]byte{pt.templateMsg(ipfixref.Header{}), pt.dataMsg(ipfixref.Header{}, []byte{1, 2})} {
			Block("write", func() { pc.Write(m) })
			env.Sleep(100 * time.Millisecond)
		}
		env.Sleep(time.Second)
		pc.Close()
	}
	env.Sleep(time.Second)
	stopped := make(chan struct{})
	env.Go("stopper", func() {
		defer close(stopped)
		Block("stop", func() { cp.Stop() })
	})
	waitOrTimeout(stopped, 2*time.Minute)
	cp.CloseMsgChan()
	waitOrTimeout(consumed, time.Second)
	if env.Net.Listening(addr) {
		env.Violate("socket-leak", "unusable-settings", "%s: the collector's address is still bound after Stop returned", where)
	}
	mine, plain := 0, 0
	for _, d := range got {
		if d.Domain == domain {
			mine++
		}
		if d.Domain == domain+1 {
			plain++
		}
	}
	if plain > 0 {
		env.Violate("plaintext-accepted", "unusable-settings", "%s: a collector configured for TLS whose certificate material cannot be used delivered %d messages that arrived unencrypted", where, plain)
	}
	env.Logf("%s -> unusable client CA: init err=%v sent=%d delivered=%d", where, ierr != nil, sent, mine)
	if mine > 0 {
		env.Violate("delivered-from-unauthenticated-exporter", "unusable-client-ca", "%s: the collector is configured with a client CA that holds no usable certificate (it can authenticate nobody) and was started more than once; it delivered %d messages from an exporter", where, mine)
	}
}

// c18SharedCollector: one TLS collector that stays up while several exporting processes, each with
// its own configuration, connect to it one after the other. Every one of them is judged on its own
// configuration: what an earlier exporting process of the same application was allowed to do says
// nothing about a later one.
func c18SharedCollector(env *Env, where, addr string, srv certPair, cert, cliCA, day int, v6 bool, z *zoo, ein exporter.ExporterInput, exps []plan.Op, domain0 uint32, cliCerts []certPair) {
	cin := collector.CollectorInput{Address: addr, Protocol: "tcp", MaxBufferSize: 65535, IsEncrypted: true, ServerCert: c18ServerPEM(env, srv, z), ServerKey: srv.KeyPEM, TemplateTTL: 7200}
	if cliCA == 1 {
		cin.CACert = z.CA.PEM
	}
	stop, peek, err := c18StartCollectorPeek(env, cin)
	if err != nil {
		env.Out.Trouble = "collector: " + err.Error()
		return
	}
	defer stop()
	// The application keeps its CA bundle in one buffer and overwrites that buffer when the bundle
	// changes (the two bundles are padded to one length with trailing newlines, which PEM allows):
	// what an exporting process is configured with is what the buffer holds when it is created.
	caLen := max(len(z.CA.PEM), len(z.OtherCA.PEM)) + 1
	padTo := func(b []byte) []byte {
		return append(append([]byte(nil), b...), bytes.Repeat([]byte("\n"), caLen-len(b))...)
	}
	caBuf := make([]byte, caLen)
	sharedBuf := domain0%2 == 0
	for j, x := range exps {
		if x.T > 0 {
			env.Sleep(time.Duration(x.T) * 24 * time.Hour)
			day += x.T
		}
		expCA, snMode, cliCert := int(x.A)&1, int(x.B)%3, int(x.C)%4
		cfg := &exporter.ExporterTLSClientConfig{CAData: z.CA.PEM, ServerName: []string{"", serverDNSName, "wrong.example"}[snMode]}
		if expCA == 1 {
			cfg.CAData = z.OtherCA.PEM
		}
		if sharedBuf {
			copy(caBuf, padTo(cfg.CAData))
			cfg.CAData = caBuf
			env.Count("probe.ca_bundle_buffer_overwritten_in_place", 1)
		}
		if cliCert > 0 {
			cfg.CertData, cfg.KeyData = cliCerts[cliCert].CertPEM, cliCerts[cliCert].KeyPEM
		}
		e := c18ExpectationCA(0, cert, day, snMode, cliCert, cliCA, v6, false, expCA)
		domain := domain0*100 + uint32(j)
		in := ein
		in.TLSClientConfig = cfg
		in.ObservationDomainID = domain
		in.CheckConnInterval = time.Duration(x.D) * time.Millisecond
		w := fmt.Sprintf("%s, exporting process %d of %d against the same collector (day %d, configured CA %d, serverName mode %d, client cert %d)", where, j+1, len(exps), day, expCA, snMode, cliCert)
		env.Logf("%s", w)
		env.Count("c18.exporters_against_shared_collector", 1)
		var ep *exporter.ExportingProcess
		var ierr error
		inited := make(chan struct{})
		env.Go("exporter-init", func() {
			defer close(inited)
			Block("init", func() { ep, ierr = exporter.InitExportingProcess(in) })
		})
		if !waitOrTimeout(inited, 10*time.Minute) {
			ierr = fmt.Errorf("InitExportingProcess did not return within 10 simulated minutes")
			env.Count("probe.init_hung", 1)
		}
		sent := 0
		if ierr == nil && ep != nil {
			env.Count("c18.sessions_established", 1)
			sent = c18SendSome(ep)
			env.Sleep(2 * time.Second) // connection checks (reads) happen meanwhile
			Block("close", func() { ep.CloseConnToCollector() })
		} else {
			env.Count("c18.sessions_refused", 1)
		}
		env.Sleep(time.Second)
		mine := 0
		for _, d := range peek() {
			if d.Domain == domain {
				mine++
			}
		}
		env.Logf("%s -> init err=%v sent=%d delivered=%d", w, ierr != nil, sent, mine)
		switch {
		case e.mustRefuse && ierr == nil:
			env.Violate("session-with-unverifiable-server", "tls", "%s: %s, but InitExportingProcess succeeded (and %d messages were delivered)", w, e.why, mine)
		case e.zeroDelivered && mine > 0:
			env.Violate("delivered-from-unauthenticated-exporter", "", "%s: %s, but the collector delivered %d messages from it", w, e.why, mine)
		case e.mustEstablish && ierr != nil:
			env.Violate("valid-session-refused", "tls", "%s: every certificate is acceptable, but InitExportingProcess failed: %v", w, ierr)
		case e.mustEstablish && mine != sent:
			env.Violate("valid-session-lost-messages", "tls", "%s: %d messages sent over the established session, %d delivered", w, sent, mine)
		}
		if len(env.Out.Violations) > 0 {
			return
		}
	}
}

// c18CappedServer: a TLS server that cannot speak more than TLS 1.(maxV-... ) with a good certificate.
func c18CappedServer(env *Env, where, addr string, maxV int, z *zoo, ein exporter.ExporterInput) {
	ver := []uint16{tls.VersionTLS11, tls.VersionTLS12, tls.VersionTLS13}[(maxV-1)%3]
	cert, err := tls.X509KeyPair(z.SrvGood.CertPEM, z.SrvGood.KeyPEM)
	if err != nil {
		env.Out.Trouble = err.Error()
		return
	}
	l, err := env.Net.Listen("tcp", addr)
	if err != nil {
		env.Out.Trouble = err.Error()
		return
	}
	var negotiated uint16
	var gotBytes int
	srvDone := make(chan struct{})
	env.Go("capped-server", func() {
		defer close(srvDone)
		var c net.Conn
		var err error
		Block("accept", func() { c, err = l.Accept() })
		if err != nil {
			return
		}
		tc := tls.Server(c, &tls.Config{Certificates: []tls.Certificate{cert}, MinVersion: tls.VersionTLS10, MaxVersion: ver})
		Block("handshake", func() { err = tc.Handshake() })
		if err == nil {
			negotiated = tc.ConnectionState().Version
			buf := make([]byte, 4096)
			tc.SetReadDeadline(time.Now().Add(5 * time.Second))
			for {
				var n int
				Block("read", func() { n, err = tc.Read(buf) })
				gotBytes += n
				if err != nil {
					break
				}
			}
		}
		c.Close()
	})
	own := *ein.TLSClientConfig // this peer kind always names the server: use a private copy of the configuration
	own.ServerName = serverDNSName
	ein.TLSClientConfig = &own
	var ep *exporter.ExportingProcess
	var ierr error
	Block("init", func() { ep, ierr = exporter.InitExportingProcess(ein) })
	if ierr == nil {
		c18SendSome(ep)
		env.Sleep(time.Second)
		Block("close", func() { ep.CloseConnToCollector() })
	}
	l.Close()
	waitOrTimeout(srvDone, time.Minute)
	env.Count(fmt.Sprintf("c18.capped_server_tls1%d", (maxV-1)%3+1), 1)
	env.Logf("%s -> capped at %x init err=%v negotiated=%x", where, ver, ierr != nil, negotiated)
	if ver < tls.VersionTLS12 && (ierr == nil || negotiated != 0) {
		env.Violate("tls-below-1.2", "", "%s: the peer speaks at most TLS 1.1 and a session was established (negotiated %#x)", where, negotiated)
	}
	if negotiated != 0 && negotiated < tls.VersionTLS12 {
		env.Violate("tls-below-1.2", "", "%s: negotiated version %#x", where, negotiated)
	}
	if ver >= tls.VersionTLS12 && ierr != nil {
		env.Violate("valid-session-refused", "tls", "%s: server with a trusted certificate speaking TLS %#x was refused: %v", where, ver, ierr)
	}
}

// pacedConn lets the first Write through (the ClientHello) and holds the later ones back until a
// point in time: the peer decides when its next handshake flight leaves.
type pacedConn struct {
	net.Conn
	env    *Env
	writes int
	until  time.Time
}

func (p *pacedConn) Write(b []byte) (int, error) {
	p.writes++
	if p.writes == 2 {
		if d := time.Until(p.until); d > 0 {
			p.env.Sleep(d)
		}
	}
	return p.Conn.Write(b)
}

// c18PacedHandshake: an exporter whose certificate (issued by the collector's client CA, valid until
// day 20) is still valid when it says hello and has expired by the time it presents it - it holds
// its second handshake flight back until day 22. The certificate is judged when it is presented.
func c18PacedHandshake(env *Env, where, addr string, z *zoo, domain uint32, day int) {
	if day >= 20 {
		return
	}
	cin := collector.CollectorInput{Address: addr, Protocol: "tcp", MaxBufferSize: 65535, IsEncrypted: true, ServerCert: z.SrvGood.CertPEM, ServerKey: z.SrvGood.KeyPEM, CACert: z.CA.PEM, TemplateTTL: 7200}
	stop, err := c18StartCollector(env, cin)
	if err != nil {
		env.Out.Trouble = "collector: " + err.Error()
		return
	}
	cert, cerr := tls.X509KeyPair(z.CliExpired.CertPEM, z.CliExpired.KeyPEM)
	if cerr != nil {
		env.Out.Trouble = "client certificate: " + cerr.Error()
		return
	}
	pool := x509.NewCertPool()
	pool.AppendCertsFromPEM(z.CA.PEM)
	var raw net.Conn
	Block("dial", func() { raw, err = env.Net.Dial("tcp", addr) })
	if err == nil {
		pc := &pacedConn{Conn: raw, env: env, until: bubbleEpoch.AddDate(0, 0, 22)}
		// the client does not care about the date; what is at stake is what the collector makes of it
		c := tls.Client(pc, &tls.Config{RootCAs: pool, ServerName: serverDNSName, Certificates: []tls.Certificate{cert}, MinVersion: tls.VersionTLS12, Time: func() time.Time { return bubbleEpoch }})
		var herr error
		Block("handshake", func() { herr = c.Handshake() })
		env.Count("fault.client_certificate_expires_during_the_handshake", 1)
		if herr == nil {
			t := gTemplate{Dom: domain, ID: 256, Fields: []gField{{F: ipfixref.Field{ID: 7, Len: 2}, Known: true, Width: 2}}}
			for _, m := range [][]byte{t.templateMsg(ipfixref.Header{}), t.dataMsg(ipfixref.Header{}, []byte{1, 2})} {
				Block("write", func() { c.Write(m) })
				env.Sleep(100 * time.Millisecond)
			}
			env.Sleep(time.Second)
		}
		c.Close()
	}
	got := stop()
	mine := 0
	for _, d := range got {
		if d.Domain == domain {
			mine++
		}
	}
	if mine > 0 {
		env.Violate("delivered-from-unauthenticated-exporter", "expired-during-handshake", "%s: the exporter's certificate was valid when it said hello on day %d and had expired (day 20) when it presented it on day 22; the collector delivered %d messages from it", where, day, mine)
	}
}

// c18PlaintextSender: unencrypted IPFIX thrown at an encrypted collector must never be delivered.
func c18PlaintextSender(env *Env, where, addr string, proto int, z *zoo, domain uint32) {
	cin := collector.CollectorInput{Address: addr, Protocol: []string{"tcp", "udp"}[proto], MaxBufferSize: 65535, IsEncrypted: true, ServerCert: z.SrvGood.CertPEM, ServerKey: z.SrvGood.KeyPEM, TemplateTTL: 7200}
	stop, err := c18StartCollector(env, cin)
	if err != nil {
		env.Out.Trouble = "collector: " + err.Error()
		return
	}
	t := gTemplate{Dom: domain, ID: 256, Fields: []gField{{F: ipfixref.Field{ID: 7, Len: 2}, Known: true, Width: 2}}}
	msgs := [][]byte{t.templateMsg(ipfixref.Header{}), t.dataMsg(ipfixref.Header{}, []byte{1, 2}), t.dataMsg(ipfixref.Header{}, []byte{3, 4})}
	// Other peers may be in the middle of their handshakes meanwhile - connected, nothing said yet, or
	// half a ClientHello sent: 0, 3, 8 or 20 of them, by the session's domain number. They hold their
	// connections until the sender is done.
	var pending []net.Conn
	if proto == 0 {
		for i, n := 0, []int{0, 3, 8, 20}[int(domain)%4]; i < n; i++ {
			var pc net.Conn
			var perr error
			Block("dial", func() { pc, perr = env.Net.Dial("tcp", addr) })
			if perr != nil {
				break
			}
			if i%2 == 1 {
				Block("write", func() { pc.Write([]byte{22, 3, 1, 0, 200, 1, 0, 0, 196, 3, 3}) })
			}
			pending = append(pending, pc)
		}
		env.Count("fault.plaintext_sender_behind_pending_handshakes", int64(len(pending)))
		env.Sleep(10 * time.Millisecond)
		defer func() {
			for _, pc := range pending {
				pc.Close()
			}
		}()
	}
	var c net.Conn
	Block("dial", func() {
		if proto == 0 {
			c, err = env.Net.Dial("tcp", addr)
		} else {
			c, err = env.Net.DialUDP(&net.UDPAddr{IP: net.ParseIP(hostOf(addr)), Port: portOf(addr)})
		}
	})
	if err == nil {
		for _, m := range msgs {
			Block("write", func() { c.Write(m) })
			env.Sleep(100 * time.Millisecond)
		}
		env.Sleep(time.Second)
		c.Close()
	}
	got := stop()
	env.Count("fault.plaintext_sender", 1)
	if len(got) > 0 {
		env.Violate("plaintext-accepted", []string{"tls", "dtls"}[proto], "%s: an encrypted collector delivered %d messages that arrived unencrypted", where, len(got))
	}
}

// c18PlaintextListener: a TLS/DTLS exporter facing a peer that does not speak TLS/DTLS must fail
// and must not put a clear-text IPFIX message on the wire.
func c18PlaintextListener(env *Env, where, addr string, proto int, ein exporter.ExporterInput) {
	var clear int
	isIPFIX := func(p []byte) bool {
		return len(p) >= 16 && p[0] == 0 && p[1] == 10 && int(p[2])<<8|int(p[3]) == len(p)
	}
	done := make(chan struct{})
	var l *simnet.Listener
	var u *simnet.UDPConn
	var err error
	if proto == 0 {
		l, err = env.Net.Listen("tcp", addr)
		if err == nil {
			env.Go("plain-listener", func() {
				defer close(done)
				var c net.Conn
				var err error
				Block("accept", func() { c, err = l.Accept() })
				if err != nil {
					return
				}
				buf := make([]byte, 65536)
				c.SetReadDeadline(time.Now().Add(20 * time.Second))
				for {
					var n int
					Block("read", func() { n, err = c.Read(buf) })
					if n > 0 && isIPFIX(buf[:n]) {
						clear++
					}
					if err != nil {
						break
					}
				}
				c.Close()
			})
		}
	} else {
		u, err = env.Net.ListenUDP(&net.UDPAddr{IP: net.ParseIP(hostOf(addr)), Port: portOf(addr)})
		if err == nil {
			env.Go("plain-listener", func() {
				defer close(done)
				buf := make([]byte, 65536)
				u.SetReadDeadline(time.Now().Add(2 * time.Minute))
				for {
					var n int
					var err error
					Block("read", func() { n, _, err = u.ReadFromUDP(buf) })
					if n > 0 && isIPFIX(buf[:n]) {
						clear++
					}
					if err != nil {
						break
					}
				}
			})
		}
	}
	if err != nil {
		env.Out.Trouble = err.Error()
		return
	}
	var ep *exporter.ExportingProcess
	var ierr error
	inited := make(chan struct{})
	env.Go("exporter-init", func() {
		defer close(inited)
		Block("init", func() { ep, ierr = exporter.InitExportingProcess(ein) })
	})
	hung := !waitOrTimeout(inited, 10*time.Minute)
	if !hung && ierr == nil && ep != nil {
		c18SendSome(ep)
		env.Sleep(time.Second)
		Block("close", func() { ep.CloseConnToCollector() })
	}
	if l != nil {
		l.Close()
	}
	if u != nil {
		u.Close()
	}
	waitOrTimeout(done, 5*time.Minute)
	waitOrTimeout(inited, 5*time.Minute)
	env.Count("fault.plaintext_listener", 1)
	if !hung && ierr == nil {
		env.Violate("session-with-plaintext-peer", []string{"tls", "dtls"}[proto], "%s: the peer does not speak %s and InitExportingProcess succeeded", where, []string{"TLS", "DTLS"}[proto])
	}
	if clear > 0 {
		env.Violate("cleartext-on-wire", []string{"tls", "dtls"}[proto], "%s: %d clear-text IPFIX messages were written by an exporter configured for encryption", where, clear)
	}
}
