package harness

import (
	"math/rand/v2"
	"time"

	"github.com/vmware/go-ipfix/pkg/entities"

	"verif/sim/plan"
)

// C09 — the exporter never emits an invalid, oversized or silently altered message.

func init() {
	register(&Prop{
		ID: "C09", Gen: genC09, Run: runC09, Quick: 1500, Thorough: 200000,
		Real: []string{"pkg/exporter (SendSet, sanity check, size check, message builder)", "pkg/entities (set/record builders, value encoder)", "pkg/registry"},
		Stub: []string{"OS sockets (simnet)", "wall clock (synctest bubble)"},
		Rule: "valid template/data sends interleaved with: data for an unknown template id, wrong field count, messages sized 65519..65540 bytes, undefined set type, values that cannot be encoded for their element, one too-short record among long ones, failed redefinitions, oversize templates, concurrent data for a template whose announcement fails, sends at the instant of a refresh; non-trivial = at least one invalid attempt and one later valid send; distinct = distinct event-log hash",
	})
}

var (
	idxVarString  []int64 // catalogue indices of variable-length strings
	idxIPv4       []int64
	idxFixedOctet []int64 // user catalogue keys (>=100000)
	idxSmall      []int64 // small fixed-size elements
	idxOneByte    []int64 // fixed-size elements of one byte
)

func initC09Index() {
	if len(idxVarString) > 0 {
		return
	}
	for i, sp := range catalog {
		switch {
		case sp.Type == entities.String:
			idxVarString = append(idxVarString, int64(i))
		case sp.Type == entities.Ipv4Address:
			idxIPv4 = append(idxIPv4, int64(i))
		case sp.Len != entities.VariableLength && sp.Len <= 8:
			idxSmall = append(idxSmall, int64(i))
			if sp.Len == 1 && sp.Ent == 0 {
				idxOneByte = append(idxOneByte, int64(i))
			}
		}
	}
	for i, sp := range catalogUser {
		if sp.Type == entities.OctetArray && sp.Len != entities.VariableLength {
			idxFixedOctet = append(idxFixedOctet, int64(100000+i))
		}
	}
}

func genC09(seed uint64, tier string) *plan.Plan {
	initC09Index()
	r := rand.New(rand.NewPCG(seed, 0xc09))
	pl := &plan.Plan{Cfg: map[string]int64{}}
	pl.Cfg["proto"] = int64(r.IntN(2))
	if pl.Cfg["proto"] == 1 {
		pl.Cfg["refresh"] = 600
	}
	pl.Cfg["domain"] = int64(r.Uint32())
	if r.IntN(12) == 0 {
		// an exporter that writes JSON documents: sets with one invalid record among valid ones
		if pl.Cfg["proto"] == 0 {
			pl.Cfg["check_ms"] = 1000
		}
		pl.Cfg["json_bad"] = 1
		genC14JSON(r, pl)
		return pl
	}
	// slot 0: sizing template (one variable string + a few small fixed)
	// slot 1: template with an ipv4Address element; slot 2: template with a fixed-length octet array
	pick := func(xs []int64) int64 { return xs[r.IntN(len(xs))] }
	t0 := []int64{pick(idxVarString)}
	for i := r.IntN(3); i > 0; i-- {
		t0 = append(t0, pick(idxSmall))
	}
	r.Shuffle(len(t0), func(i, j int) { t0[i], t0[j] = t0[j], t0[i] })
	t1 := []int64{pick(idxIPv4), pick(idxSmall)}
	t2 := []int64{pick(idxFixedOctet), pick(idxSmall)}
	if r.IntN(2) == 0 {
		t1[0], t1[1] = t1[1], t1[0]
	}
	if r.IntN(2) == 0 {
		// a string in front and more fields behind the element that will get an ill-typed value
		t1 = append(append([]int64{pick(idxVarString)}, t1...), pick(idxSmall), pick(idxSmall))
		t2 = append(append([]int64{pick(idxVarString)}, t2...), pick(idxSmall))
	}
	pl.Ops = append(pl.Ops, plan.Op{K: "tmpl", A: 0, N: t0}, plan.Op{K: "tmpl", A: 1, N: t1}, plan.Op{K: "tmpl", A: 2, N: t2})
	n := 6 + r.IntN(20)
	if tier == "thorough" {
		n = 6 + r.IntN(60)
	}
	valid := func() plan.Op {
		return plan.Op{K: "data", A: int64(r.IntN(3)), B: int64(1 + r.IntN(5)), C: int64(r.Uint64() >> 1), D: int64(r.IntN(300)), S: []string{"", "extra", "v2"}[r.IntN(3)]}
	}
	defs := [][]int64{t0, t1, t2}
	nextSlot := int64(3)
	rs := rand.New(rand.NewPCG(seed, 0xc095)) // a stream of its own: older plans keep their other ops
	for i := 0; i < n; i++ {
		if r.IntN(10) == 0 {
			// An already announced id is announced again with another field count, and that send fails
			// (transport write error, or - rarely - a template just above the size limit): the template
			// in force is still the one that was transmitted. A data set shaped after it must go
			// through, one shaped after the failed definition must be refused.
			slot := r.IntN(3)
			d := int64(1 + r.IntN(2))
			nd := append(append([]int64(nil), defs[slot]...), pick(idxSmall))
			if d == 2 {
				nd = append(nd, pick(idxSmall))
			}
			if len(defs[slot]) > 1 && r.IntN(2) == 0 {
				d = -1
				nd = append([]int64(nil), defs[slot][:len(defs[slot])-1]...)
			}
			op := plan.Op{K: "retmpl", A: int64(slot), N: nd}
			if r.IntN(6) == 0 && len(idxOneByte) > 0 {
				op = plan.Op{K: "retmpl", A: int64(slot), N: []int64{pick(idxOneByte)}, B: int64(16378 + r.IntN(3))}
				d = 0
			} else {
				pl.Ops = append(pl.Ops, plan.Op{K: "wfault", A: 3}) // the write fails, nothing is written
			}
			pl.Ops = append(pl.Ops, op, valid())
			pl.Ops[len(pl.Ops)-1].A = int64(slot)
			if d != 0 {
				bad := valid()
				bad.A = int64(slot)
				bad.F = []plan.Op{{K: "count", A: d}}
				pl.Ops = append(pl.Ops, bad)
			}
			continue
		}
		if r.IntN(12) == 0 && nextSlot < 6 {
			// a new template id whose only announcement fails in the transport, while a second
			// goroutine of the application hands in a data set for that id: the template was never
			// transmitted, whatever the two calls' relative timing
			pl.Cfg["sender2"] = 1
			tn := []int64{pick(idxSmall), pick(idxSmall)}
			pl.Ops = append(pl.Ops, plan.Op{K: "wfault", A: 3},
				plan.Op{K: "send2", S: "for", B: nextSlot, C: int64(r.Uint64() >> 1)},
				plan.Op{K: "tmpl", A: nextSlot, N: tn},
				plan.Op{K: "adv", A: int64(time.Millisecond)})
			nextSlot++
			continue
		}
		if r.IntN(25) == 0 && nextSlot < 6 && len(idxOneByte) > 0 {
			// a template of 16376..16380 one-byte fields: up to 16377 it fits a message, above it must be
			// refused - and was then never sent, so data for its id must be refused as well
			pl.Ops = append(pl.Ops, plan.Op{K: "tmpl", A: nextSlot, N: []int64{pick(idxOneByte)}, B: int64(16376 + r.IntN(5))},
				plan.Op{K: "data", A: nextSlot, B: 1, C: int64(r.Uint64() >> 1), D: 0})
			nextSlot++
			continue
		}
		if rs.IntN(10) == 0 {
			// the id in the set header and the id the records were added under differ
			pl.Ops = append(pl.Ops, plan.Op{K: "datasetid", A: int64(rs.IntN(3)), B: int64(rs.IntN(6)), C: int64(rs.Uint64() >> 1)})
		}
		switch r.IntN(9) {
		case 0:
			// a small pool of never-announced ids, so that the same unknown id is tried repeatedly,
			// with the shape of a known template (B) or a 1-field record (B = -1)
			pl.Ops = append(pl.Ops, plan.Op{K: "dataunk", A: int64(7 + r.IntN(2)), B: int64(r.IntN(4) - 1), C: int64(r.Uint64() >> 1)})
		case 1:
			op := valid()
			d := int64(1 + r.IntN(2))
			if r.IntN(2) == 0 {
				d = -d
			}
			op.F = []plan.Op{{K: "count", A: d, B: int64(r.IntN(6))}} // every record, or one of them
			pl.Ops = append(pl.Ops, op)
		case 2:
			op := plan.Op{K: "data", A: 0, B: int64(1 + r.IntN(3)), C: int64(r.Uint64() >> 1), D: 40, S: []string{"", "extra", "v2"}[r.IntN(3)]}
			op.F = []plan.Op{{K: "size", A: int64(65519 + r.IntN(22))}}
			pl.Ops = append(pl.Ops, op)
		case 3:
			if r.IntN(2) == 0 {
				// several records, one of them too short for the template, the others long
				nrec := int64(2 + r.IntN(4))
				op := plan.Op{K: "data", A: int64(r.IntN(3)), B: nrec, C: int64(r.Uint64() >> 1), D: int64(20 + r.IntN(280)), S: []string{"", "extra", "v2"}[r.IntN(3)]}
				op.F = []plan.Op{{K: "shortrec", A: r.Int64N(nrec)}}
				pl.Ops = append(pl.Ops, op)
				break
			}
			pl.Ops = append(pl.Ops, plan.Op{K: "undef"})
		case 4:
			kind := int64(1 + r.IntN(2))
			op := plan.Op{K: "data", A: kind, B: int64(1 + r.IntN(3)), C: int64(r.Uint64() >> 1), D: 40, S: []string{"", "extra", "v2"}[r.IntN(3)]}
			op.F = []plan.Op{{K: "illtyped", A: kind}}
			pl.Ops = append(pl.Ops, op)
		default:
			pl.Ops = append(pl.Ops, valid())
		}
	}
	if pl.Cfg["proto"] == 1 && r.IntN(3) == 0 {
		// a UDP session that lives through a template refresh: what is re-announced is what the data
		// sets sent afterwards are checked against by any collector
		at := 3 + r.IntN(len(pl.Ops)-2)
		ops := append([]plan.Op(nil), pl.Ops[:at]...)
		ops = append(ops, plan.Op{K: "adv", A: int64(601 * time.Second), S: []string{"", "tick"}[r.IntN(2)]})
		pl.Ops = append(ops, pl.Ops[at:]...)
	}
	pl.Ops = append(pl.Ops, valid())
	genSchedule(r, pl, 0, 0)
	return pl
}

func runC09(pl *plan.Plan, out *plan.Outcome) {
	if cfgOr(pl, "json", 0) == 1 {
		runC14JSON(pl, out) // the JSON exporter: invalid sets among valid ones (see c14json.go)
		return
	}
	env := newEnv(pl, out, keepLogFlag)
	var sess *expSession
	env.Go("app", func() {
		s, err := newExpSession(env)
		if err != nil {
			out.Trouble = "exporter init failed: " + err.Error()
			return
		}
		sess = s
		if cfgOr(pl, "sender2", 0) == 1 {
			s.startSecondSender()
		}
		s.runOps(pl.Ops)
		if s.send2Ch != nil {
			close(s.send2Ch)
			s.env.Sleep(time.Second)
		}
		s.closeExporter()
	})
	res := env.Run()
	if res == "stuck" && sess != nil {
		// Nothing in these sessions can block a send legitimately (the peer reads everything, no
		// window): every task is blocked with no timer pending, so a call into the exporting process
		// never returns. After a rejected invalid attempt that is "later sends" not producing messages.
		rejected := 0
		for _, c := range sess.calls {
			if c.Expect == "error" && c.Err != nil {
				rejected++
			}
		}
		if rejected > 0 {
			last := sess.calls[len(sess.calls)-1]
			env.Violate("later-send-never-returns", "", "after %d invalid attempts were rejected (last completed call: %s, err=%v) a later SendSet / refresh / Close never returns: the run ended with every task blocked and no timer pending", rejected, last.Kind, last.Err)
			return
		}
	}
	if res != "done" && out.Trouble == "" {
		env.runEnded(res, out)
	}
	if sess == nil {
		return
	}
	sess.checkNoInvalid()
	for _, c2 := range sess.calls2 {
		if ti := sess.tmpls[c2.Slot]; ti != nil && !ti.Sent && c2.Err == nil {
			env.Violate("invalid-accepted", "data:template-concurrent", "a data set for template %d, handed in by a second goroutine while the only announcement of that template was failing, was accepted and transmitted; the template was never sent", ti.ID)
		}
	}
	// later sends still produce well-formed messages carrying the handed values
	sess.checkWire("C09")
	inv, okAfter := 0, 0
	for _, c := range sess.calls {
		if c.Expect == "error" {
			inv++
			out.Add("fault.invalid_attempt."+c.Kind+"."+clauseWord(c.Why), 1)
		} else if inv > 0 && c.Err == nil {
			okAfter++
		}
		if c.MsgLen >= 65519 && c.MsgLen <= 65540 {
			out.Add("probe.size_boundary_message", 1)
			if c.MsgLen == 65535 {
				out.Add("probe.message_of_exactly_65535_bytes", 1)
			}
		}
		if c.Valid && c.Err != nil {
			out.Add("probe.valid_send_rejected", 1)
		}
	}
	out.Nontrivial = inv > 0 && okAfter > 0
	out.Sample = map[string]any{"calls": len(sess.calls), "invalid_attempts": inv, "valid_after_invalid": okAfter, "wire": len(sess.wire)}
}
