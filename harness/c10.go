package harness

import (
	"encoding/hex"
	"fmt"
	"math/rand/v2"
	"sort"
	"time"

	"github.com/vmware/go-ipfix/pkg/collector"
	"github.com/vmware/go-ipfix/pkg/entities"

	"verif/oracle/ipfixref"
	"verif/sim/plan"
)

// C10 — UDP template lifetime: usable for the TTL after the last refresh, then discarded.
//
// Member 0 (simclock): the collector is built on the simulator's own clock
// (hook VerifNewWithClock). A timer is explicit simulator state: armed(deadline) |
// idle, plus a count of fired-but-not-yet-run callbacks. "fire" and "run callback"
// are separate plan operations, so "fired, callback pending, then refresh" is an
// ordinary plan. Member 1 (realclock): the same plans with time.AfterFunc inside
// the bubble, where the placement of callbacks is the scheduler's.
//
// Plan ops: {K:"msg", X:hex, S:kind, A:key index}; {K:"adv", A:ns}; {K:"fire", A:n} fire the
// n-th (mod count) eligible timer; {K:"runcb", A:n} run the n-th (mod count) pending callback.
// Cfg: ttl (s), member, mode.

func init() {
	register(&Prop{
		ID: "C10", Gen: genC10, Run: runC10, Quick: 4000, Thorough: 600000,
		Real: []string{"pkg/collector template table with UDP lifetime management (addTemplate, timer callback, deleteTemplateWithConds), decodePacket through the VerifDecodePacket hook", "member 1: the library's realClock (time.AfterFunc) inside the bubble"},
		Stub: []string{"member 0: the clock/timer seam is implemented by the simulator (simclock: Now, AfterFunc, Stop, Reset with time.AfterFunc's documented semantics; firing and callback execution are plan operations)", "UDP socket (messages are handed to the decoder directly)"},
		Rule: "sequences over 2 template ids x 2 observation domains of {template, refresh, replace, bad template, data, clock advance incl. exactly to an expiry, fire timer, run pending callback, callbacks on their own goroutine}; lifetimes from 1 s to a year; TTL model + timer census after every operation; non-trivial = at least one timer fired while its template was refreshed/replaced/invalidated before the callback ran, or at least one expiry; distinct = distinct event-log hash",
	})
}

// ---- simclock -----------------------------------------------------------------

type simTimer struct {
	c        *simClock
	id       int
	owner    tkey
	f        func()
	armed    bool
	deadline time.Time
	pending  int // fired, callback not yet run
	fired    int
}

type simClock struct {
	now      time.Time
	timers   []*simTimer
	curOwner tkey
}

func (c *simClock) Now() time.Time { return c.now }

func (c *simClock) AfterFunc(d time.Duration, f func()) collector.VerifTimer {
	t := &simTimer{c: c, id: len(c.timers), owner: c.curOwner, f: f, armed: true, deadline: c.now.Add(d)}
	c.timers = append(c.timers, t)
	return t
}

// Stop prevents the timer from firing: true if the call stops the timer, false
// if it already fired or was stopped (time.Timer semantics).
func (t *simTimer) Stop() bool {
	was := t.armed
	t.armed = false
	return was
}

// Reset: true if the timer had been active (rescheduled), false if it had
// expired or been stopped (f is scheduled to run again).
func (t *simTimer) Reset(d time.Duration) bool {
	was := t.armed
	t.armed = true
	t.deadline = t.c.now.Add(d)
	return was
}

func (c *simClock) eligible() []*simTimer {
	var out []*simTimer
	for _, t := range c.timers {
		if t.armed && !t.deadline.After(c.now) {
			out = append(out, t)
		}
	}
	return out
}

func (c *simClock) pendingTimers() []*simTimer {
	var out []*simTimer
	for _, t := range c.timers {
		if t.pending > 0 {
			out = append(out, t)
		}
	}
	return out
}

func (t *simTimer) fire() {
	t.armed = false
	t.pending++
	t.fired++
}

func (t *simTimer) runCallback() {
	t.pending--
	t.f()
}

// ---- generator ------------------------------------------------------------------

func genC10(seed uint64, tier string) *plan.Plan {
	r := rand.New(rand.NewPCG(seed, 0xc10))
	pl := &plan.Plan{Cfg: map[string]int64{}}
	ttl := []int64{1, 5, 60, 1800}[r.IntN(4)]
	if r.IntN(8) == 0 {
		// lifetimes of weeks, months, or the largest value the field holds
		ttl = []int64{4294967, 4294968, 5184000, 31536000}[r.IntN(4)]
		pl.Cfg["idle_ns"] = int64(20 * 365 * 24 * time.Hour) // advances of that order are not a stuck run
	}
	pl.Cfg["ttl"] = ttl
	if ttl == 1800 && r.IntN(2) == 0 {
		// the lifetime is left unset: RFC 7011's default, half an hour (entities.TemplateTTL), applies
		pl.Cfg["ttl_unset"] = 1
	}
	pl.Cfg["member"] = int64(r.IntN(3) / 2) // 2/3 simclock, 1/3 realclock
	pl.Cfg["mode"] = int64(r.IntN(3))
	TTL := time.Duration(ttl) * time.Second
	keys := []tkey{{1, 256}, {1, 257}, {2, 256}, {2, 257}}
	cur := map[int]*gTemplate{}
	hdr := func() ipfixref.Header { return ipfixref.Header{ExportTime: r.Uint32(), Sequence: r.Uint32()} }
	n := 6 + r.IntN(30)
	if tier == "thorough" {
		n = 6 + r.IntN(60)
	}
	now := time.Duration(0)
	lastTx := map[int]time.Duration{}
	for i := 0; i < n; i++ {
		ki := r.IntN(len(keys))
		k := keys[ki]
		x := r.IntN(100)
		switch {
		case x < 18 || (cur[ki] == nil && x < 40):
			t := genTemplate(r, k.dom, k.id, tmplOpts{maxFields: 3})
			for len(t.Fields) == 0 {
				t = genTemplate(r, k.dom, k.id, tmplOpts{maxFields: 3})
			}
			kind := "template"
			if cur[ki] != nil {
				kind = "replace"
			}
			cur[ki] = &t
			lastTx[ki] = now
			pl.Ops = append(pl.Ops, plan.Op{K: "msg", A: int64(ki), X: hex.EncodeToString(t.templateMsg(hdr())), S: kind})
		case x < 30 && cur[ki] != nil:
			lastTx[ki] = now
			pl.Ops = append(pl.Ops, plan.Op{K: "msg", A: int64(ki), X: hex.EncodeToString(cur[ki].templateMsg(hdr())), S: "refresh"})
		case x < 36:
			b := ipfixref.EncodeMessage(ipfixref.Header{Domain: k.dom}, ipfixref.EncodeSet(2, []byte{byte(k.id >> 8), byte(k.id), 0, 3, 0, 1}))
			delete(cur, ki)
			pl.Ops = append(pl.Ops, plan.Op{K: "msg", A: int64(ki), X: hex.EncodeToString(b), S: "badtemplate"})
		case x < 55:
			t := cur[ki]
			if t == nil {
				tt := genTemplate(r, k.dom, k.id, tmplOpts{maxFields: 2})
				t = &tt
			}
			if len(t.Fields) == 0 {
				continue
			}
			pl.Ops = append(pl.Ops, plan.Op{K: "msg", A: int64(ki), X: hex.EncodeToString(t.dataMsg(hdr(), t.dataBody(r, 1+r.IntN(2), 5, false, false))), S: "data"})
		case x < 78:
			var d time.Duration
			switch c := r.IntN(7); {
			case c == 0:
				d = 0
			case c == 1:
				d = time.Nanosecond
			case c <= 4 && len(lastTx) > 0:
				// relative to an expiry instant
				var ks []int
				for q := range lastTx {
					ks = append(ks, q)
				}
				sort.Ints(ks)
				exp := lastTx[ks[r.IntN(len(ks))]] + TTL
				d = exp - now + []time.Duration{0, 0, -time.Nanosecond, time.Nanosecond, time.Second}[r.IntN(5)]
			case c == 5:
				d = TTL
			default:
				d = time.Duration(r.Int64N(int64(2 * TTL)))
			}
			if d < 0 {
				d = 0
			}
			now += d
			pl.Ops = append(pl.Ops, plan.Op{K: "adv", A: int64(d)})
		case x < 84 && cur[ki] != nil && pl.Cfg["member"] == 0:
			// the whole situation in one go: key ki's lifetime runs out, its timer fires, and its
			// callback runs on a goroutine of its own while a refresh / replacement / bad template
			// for the same key is being decoded
			if exp := lastTx[ki] + TTL; exp > now {
				pl.Ops = append(pl.Ops, plan.Op{K: "adv", A: int64(exp - now)})
				now = exp
			}
			pl.Ops = append(pl.Ops, plan.Op{K: "fire", A: 0}, plan.Op{K: "fire", A: 0}, plan.Op{K: "runcb", A: int64(r.IntN(2)), B: 1})
			switch r.IntN(3) {
			case 0:
				lastTx[ki] = now
				pl.Ops = append(pl.Ops, plan.Op{K: "msg", A: int64(ki), X: hex.EncodeToString(cur[ki].templateMsg(hdr())), S: "refresh"})
			case 1:
				t := genTemplate(r, k.dom, k.id, tmplOpts{maxFields: 3})
				for len(t.Fields) == 0 {
					t = genTemplate(r, k.dom, k.id, tmplOpts{maxFields: 3})
				}
				cur[ki] = &t
				lastTx[ki] = now
				pl.Ops = append(pl.Ops, plan.Op{K: "msg", A: int64(ki), X: hex.EncodeToString(t.templateMsg(hdr())), S: "replace"})
			default:
				pl.Ops = append(pl.Ops, plan.Op{K: "msg", A: int64(ki), X: hex.EncodeToString(cur[ki].dataMsg(hdr(), cur[ki].dataBody(r, 1, 5, false, false))), S: "data"})
			}
		case x < 90:
			pl.Ops = append(pl.Ops, plan.Op{K: "fire", A: int64(r.IntN(8))})
		default:
			// B=1: the callback runs on its own goroutine while the next message is being decoded
			// (the scheduler interleaves the two at every lock acquisition and preemption)
			pl.Ops = append(pl.Ops, plan.Op{K: "runcb", A: int64(r.IntN(8)), B: int64(r.IntN(2))})
		}
	}
	genSchedule(r, pl, 4, 2000)
	return pl
}

// ---- run --------------------------------------------------------------------------

type ttlEntry struct {
	tr time.Time // latest valid (re)transmission
}

func runC10(pl *plan.Plan, out *plan.Outcome) {
	env := newEnv(pl, out, keepLogFlag)
	mode := int(cfgOr(pl, "mode", 0))
	TTL := time.Duration(cfgOr(pl, "ttl", 5)) * time.Second
	simMember := cfgOr(pl, "member", 0) == 0
	keys := []tkey{{1, 256}, {1, 257}, {2, 256}, {2, 257}}
	in := collector.CollectorInput{Address: "10.0.0.1:4739", Protocol: "udp", MaxBufferSize: 65535, TemplateTTL: uint32(cfgOr(pl, "ttl", 5)), DecodingMode: modeNames[mode]}
	if cfgOr(pl, "ttl_unset", 0) == 1 && TTL == 1800*time.Second {
		in.TemplateTTL = 0
		env.Count("probe.template_lifetime_left_at_default", 1)
	}
	var clk *simClock
	var cp *collector.CollectingProcess
	var err error
	if simMember {
		clk = &simClock{now: bubbleEpoch}
		cp, err = collector.VerifNewWithClock(in, clk)
	} else {
		cp, err = collector.InitCollectingProcess(in)
	}
	if err != nil {
		out.Trouble = err.Error()
		return
	}
	model := newColModel(mode)
	ttl := map[tkey]*ttlEntry{}
	nowFn := func() time.Time {
		if simMember {
			return clk.now
		}
		return time.Now()
	}
	env.Go("consumer", func() {
		for {
			var ok bool
			Block("consume", func() { _, ok = <-cp.GetMsgChan() })
			if !ok {
				return
			}
		}
	})
	expiries, racy := 0, 0
	env.Go("driver", func() {
		defer cp.CloseMsgChan()
		// census + TTL rules; strict: every outstanding expiry has been delivered
		check := func(where string, strict bool) bool {
			now := nowFn()
			held := map[tkey]collector.VerifTemplate{}
			for _, t := range cp.VerifTemplates() {
				held[tkey{t.Domain, t.ID}] = t
			}
			for k := range held {
				if _, ok := model.tmpls[k]; !ok {
					env.Violate("unexpected-template", "", "%s: collector holds template %d/%d, which was never (validly) sent or was invalidated", where, k.dom, k.id)
					return false
				}
			}
			for k := range model.tmpls {
				e := ttl[k]
				h, present := held[k]
				expired := !now.Before(e.tr.Add(TTL))
				outstanding := false
				if simMember && present {
					st := h.Timer.(*simTimer)
					outstanding = st.pending > 0 || (st.armed && !st.deadline.After(now))
				}
				if !simMember {
					// the runtime starts the callback goroutine at the expiry instant itself: at that
					// exact instant it may not have run yet
					outstanding = !strict || now.Equal(e.tr.Add(TTL))
				}
				switch {
				case !expired && !present:
					env.Violate("dropped-early", "", "%s: template %d/%d was (re)transmitted %v ago (lifetime %v) and is gone", where, k.dom, k.id, now.Sub(e.tr), TTL)
					return false
				case expired && present && !outstanding:
					env.Violate("outlived", "", "%s: template %d/%d was last (re)transmitted %v ago (lifetime %v), no expiry timer or callback is outstanding, and it is still stored", where, k.dom, k.id, now.Sub(e.tr), TTL)
					return false
				case expired && !present:
					delete(model.tmpls, k)
					delete(ttl, k)
					expiries++
				}
			}
			if simMember {
				// census: stored => armed timer or pending callback; armed timers belong to stored templates
				for k, h := range held {
					st, ok := h.Timer.(*simTimer)
					if !ok || st == nil {
						env.Violate("census-no-timer", "", "%s: stored template %d/%d has no expiry timer", where, k.dom, k.id)
						return false
					}
					if !st.armed && st.pending == 0 {
						env.Violate("census-no-expiry-pending", "", "%s: stored template %d/%d has neither an armed timer nor a callback in flight", where, k.dom, k.id)
						return false
					}
				}
				for _, st := range clk.timers {
					if !st.armed {
						continue
					}
					h, ok := held[st.owner]
					if !ok || h.Timer.(*simTimer) != st {
						env.Violate("census-orphan-timer", "", "%s: timer %d of template %d/%d is armed but that template is not stored (or uses another timer)", where, st.id, st.owner.dom, st.owner.id)
						return false
					}
				}
			}
			return true
		}
		var cbDone chan struct{} // a callback running concurrently with the current op
		for i, op := range pl.Ops {
			where := fmt.Sprintf("after op %d (%s %s)", i, op.K, op.S)
			switch op.K {
			case "msg":
				b, _ := hex.DecodeString(op.X)
				ki := int(op.A) % len(keys)
				if simMember {
					clk.curOwner = keys[ki]
				} else {
					// Real clock: keep transmissions (hence expiries) at distinct instants. The runtime
					// starts the callbacks of timers that expire at the same instant in a random order,
					// which would make the run depend on something the simulator does not control.
					env.Sleep(time.Nanosecond)
				}
				// the table may legitimately have lost expired templates: sync before computing the expectation
				// (not while a callback is in flight on another goroutine: the table is in motion)
				if cbDone == nil && !check(fmt.Sprintf("before op %d", i), false) {
					return
				}
				exp := model.step(b)
				if exp.Kind == "template" {
					ttl[tkey{exp.Domain, exp.ID}] = &ttlEntry{tr: nowFn()}
				} else if exp.Kind == "error" && op.S == "badtemplate" {
					delete(ttl, tkey{exp.Domain, exp.ID})
				}
				var msg *entities.Message
				var derr error
				Block("decode", func() { msg, derr = cp.VerifDecodePacket(b, "10.0.0.7:4000") })
				switch {
				case derr == nil && msg != nil:
					d := captureMsg(msg)
					judgeC03(pl.Prop, out, mode, i, op.S, exp, &d)
				case exp.Kind != "error":
					// decodable according to the model: an error is only legitimate if the template's
					// lifetime has elapsed and the collector has just dropped it
					k := tkey{exp.Domain, exp.ID}
					if e := ttl[k]; exp.Kind == "data" && e != nil && !nowFn().Before(e.tr.Add(TTL)) {
						env.Count("probe.data_rejected_after_lifetime", 1)
					} else {
						env.Violate("rejected-usable", exp.Kind, "%s: %s for %d/%d rejected (%v) although its template's lifetime has not elapsed", where, op.S, exp.Domain, exp.ID, derr)
						return
					}
				}
			case "adv":
				if simMember {
					clk.now = clk.now.Add(time.Duration(op.A))
				} else {
					env.Sleep(time.Duration(op.A))
					if op.A > 0 {
						// a callback that became due at this very instant has not run yet: the clock can
						// only move again once every goroutine of the instant has finished
						env.Sleep(time.Nanosecond)
					}
				}
			case "fire":
				if simMember {
					if el := clk.eligible(); len(el) > 0 {
						t := el[int(op.A)%len(el)]
						t.fire()
						env.Count("fault.timer_fired_callback_deferred", 1)
					}
				}
			case "runcb":
				if simMember {
					if pd := clk.pendingTimers(); len(pd) > 0 {
						t := pd[int(op.A)%len(pd)]
						// was the template touched between firing and the callback?
						if h := heldTimer(cp, t); h == nil || t.armed {
							racy++
						}
						env.Count("c10.callbacks_run", 1)
						if op.B == 1 && i+1 < len(pl.Ops) && pl.Ops[i+1].K == "msg" {
							done := make(chan struct{})
							cbDone = done
							env.Go("expiry-callback", func() {
								defer close(done)
								t.runCallback()
							})
							env.Count("probe.callback_concurrent_with_next_message", 1)
							env.Logf("op %d runcb (concurrent)", i)
							continue // judged after the next op, when both have finished
						}
						Block("callback", func() { t.runCallback() })
					}
				}
			}
			if cbDone != nil {
				Block("callback-join", func() { <-cbDone })
				cbDone = nil
			}
			env.Logf("op %d %s %s", i, op.K, op.S)
			if !check(where, !simMember && op.K == "adv" && op.A > 0) {
				return
			}
		}
		// quiescence: deliver every outstanding expiry, then nothing expired may remain
		if simMember {
			for guard := 0; guard < 1000; guard++ {
				el, pd := clk.eligible(), clk.pendingTimers()
				if len(el) == 0 && len(pd) == 0 {
					break
				}
				for _, t := range el {
					t.fire()
				}
				for _, t := range clk.pendingTimers() {
					Block("callback", func() { t.runCallback() })
				}
			}
		} else {
			env.Sleep(time.Nanosecond)
			env.Sleep(time.Nanosecond)
		}
		check("at quiescence", true)
	})
	if res := env.Run(); res != "done" && out.Trouble == "" {
		env.runEnded(res, out)
	}
	out.Add("c10.expiries", int64(expiries))
	out.Add("probe.callback_ran_after_template_was_touched", int64(racy))
	if simMember {
		out.Add("c10.member.simclock", 1)
	} else {
		out.Add("c10.member.realclock", 1)
	}
	out.Nontrivial = expiries > 0 || racy > 0
	out.Sample = map[string]any{"ops": len(pl.Ops), "ttl_s": cfgOr(pl, "ttl", 5), "simclock": simMember, "expiries": expiries, "racy_callbacks": racy}
}

// heldTimer returns the stored template that currently uses timer t, or nil.
func heldTimer(cp *collector.CollectingProcess, t *simTimer) *collector.VerifTemplate {
	for _, h := range cp.VerifTemplates() {
		if st, ok := h.Timer.(*simTimer); ok && st == t {
			h := h
			return &h
		}
	}
	return nil
}
