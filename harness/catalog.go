package harness

import (
	"encoding/binary"
	"fmt"
	"math"
	"math/rand/v2"
	"net"
	"sort"
	"sync"

	"github.com/vmware/go-ipfix/pkg/entities"
	"github.com/vmware/go-ipfix/pkg/registry"

	"verif/oracle/ipfixref"
)

// userEnterprise is a registry created by the harness through the public API
// (registry.InitNewRegistry / PutInfoElement): "user-registered" elements.
const userEnterprise uint32 = 55555

// elemSpec is what the generators know about an information element: data,
// copied out of the registry tables when the catalogue is built.
type elemSpec struct {
	Name string
	ID   uint16
	Ent  uint32
	Type entities.IEDataType
	Len  uint16
}

func (e elemSpec) field() ipfixref.Field { return ipfixref.Field{ID: e.ID, Ent: e.Ent, Len: e.Len} }

var (
	catalog     []elemSpec // all registry elements of supported types (IANA, reverse, Antrea)
	catalogUser []elemSpec // user-registered elements
	catByKey    map[uint64]elemSpec
)

func supportedType(t entities.IEDataType) bool {
	switch t {
	case entities.OctetArray, entities.Unsigned8, entities.Unsigned16, entities.Unsigned32, entities.Unsigned64,
		entities.Signed8, entities.Signed16, entities.Signed32, entities.Signed64, entities.Float32, entities.Float64,
		entities.Boolean, entities.MacAddress, entities.String, entities.DateTimeSeconds, entities.DateTimeMilliseconds,
		entities.Ipv4Address, entities.Ipv6Address:
		return true
	}
	return false
}

func initCatalog() {
	if err := registry.InitNewRegistry(userEnterprise); err != nil {
		panic(err)
	}
	user := []entities.InfoElement{
		{Name: "userFixedOctets8", ElementId: 1, DataType: entities.OctetArray, EnterpriseId: userEnterprise, Len: 8},
		{Name: "userFixedOctets1", ElementId: 2, DataType: entities.OctetArray, EnterpriseId: userEnterprise, Len: 1},
		{Name: "userSigned8", ElementId: 3, DataType: entities.Signed8, EnterpriseId: userEnterprise, Len: 1},
		{Name: "userSigned16", ElementId: 4, DataType: entities.Signed16, EnterpriseId: userEnterprise, Len: 2},
		{Name: "userSigned64", ElementId: 5, DataType: entities.Signed64, EnterpriseId: userEnterprise, Len: 8},
		{Name: "userFloat32", ElementId: 6, DataType: entities.Float32, EnterpriseId: userEnterprise, Len: 4},
		{Name: "userString", ElementId: 7, DataType: entities.String, EnterpriseId: userEnterprise, Len: 65535},
		{Name: "userVarOctets", ElementId: 8, DataType: entities.OctetArray, EnterpriseId: userEnterprise, Len: 65535},
		{Name: "userBool", ElementId: 9, DataType: entities.Boolean, EnterpriseId: userEnterprise, Len: 1},
		{Name: "userU64", ElementId: 32767, DataType: entities.Unsigned64, EnterpriseId: userEnterprise, Len: 8},
		// fixed-length arrays around the length at which variable-length values switch to the long prefix
		{Name: "userFixedOctets254", ElementId: 10, DataType: entities.OctetArray, EnterpriseId: userEnterprise, Len: 254},
		{Name: "userFixedOctets255", ElementId: 11, DataType: entities.OctetArray, EnterpriseId: userEnterprise, Len: 255},
		{Name: "userFixedOctets300", ElementId: 12, DataType: entities.OctetArray, EnterpriseId: userEnterprise, Len: 300},
	}
	for _, ie := range user {
		if err := registry.PutInfoElement(ie, userEnterprise); err != nil {
			panic(err)
		}
	}
	catByKey = map[uint64]elemSpec{}
	for _, ent := range []uint32{registry.IANAEnterpriseID, registry.IANAReversedEnterpriseID, registry.AntreaEnterpriseID, userEnterprise} {
		for id := 0; id < 32768; id++ {
			ie, err := registry.GetInfoElementFromID(uint16(id), ent)
			if err != nil || ie == nil {
				continue
			}
			if !supportedType(ie.DataType) {
				continue
			}
			sp := elemSpec{Name: ie.Name, ID: ie.ElementId, Ent: ie.EnterpriseId, Type: ie.DataType, Len: ie.Len}
			if ent == userEnterprise {
				catalogUser = append(catalogUser, sp)
			} else {
				catalog = append(catalog, sp)
			}
			catByKey[uint64(ent)<<16|uint64(id)] = sp
		}
	}
	sort.SliceStable(catalog, func(i, j int) bool {
		if catalog[i].Ent != catalog[j].Ent {
			return catalog[i].Ent < catalog[j].Ent
		}
		return catalog[i].ID < catalog[j].ID
	})
	if len(catalog) < 500 {
		panic(fmt.Sprintf("catalogue unexpectedly small: %d", len(catalog)))
	}
}

func lookupSpec(ent uint32, id uint16) (elemSpec, bool) {
	sp, ok := catByKey[uint64(ent)<<16|uint64(id)]
	return sp, ok
}

// infoElement returns a fresh *entities.InfoElement for a spec.
func (e elemSpec) infoElement() *entities.InfoElement {
	return entities.NewInfoElement(e.Name, e.ID, e.Type, e.Ent, e.Len)
}

// value is one field value: the typed form handed to the library and the raw
// wire bytes (without variable-length prefix) computed here, independently.
type value struct {
	Spec elemSpec
	Wire []byte
}

var (
	u64pool = []uint64{0, 1, 2, 0x7f, 0x80, 0xff, 0x100, 0x7fff, 0x8000, 0xffff, 0x10000, 0x7fffffff, 0x80000000, 0xffffffff,
		0x100000000, 0x7fffffffffffffff, 0x8000000000000000, 0xffffffffffffffff, 0x0102030405060708, 0xfffefdfcfbfaf9f8}
	f64pool = []uint64{0, 0x8000000000000000, 0x7ff0000000000000, 0xfff0000000000000, 0x7ff8000000000001, 0x7ff0000000000001,
		0xfff8000000000000, 0x0000000000000001, 0x000fffffffffffff, 0x0010000000000000, 0x7fefffffffffffff, 0x3ff0000000000000, 0xbff0000000000000}
	f32pool = []uint32{0, 0x80000000, 0x7f800000, 0xff800000, 0x7fc00001, 0x7f800001, 0xffc00000, 0x00000001, 0x007fffff, 0x00800000, 0x7f7fffff, 0x3f800000}
	strLens = []int{0, 1, 2, 7, 100, 253, 254, 255, 256, 257, 1000, 65534, 65535}
)

// genWire draws wire bytes for a spec. maxVar bounds variable-length values.
func genWire(r *rand.Rand, sp elemSpec, maxVar int) []byte {
	pick64 := func() uint64 {
		if r.IntN(3) == 0 {
			return r.Uint64()
		}
		return u64pool[r.IntN(len(u64pool))]
	}
	be := func(n int, v uint64) []byte {
		b := make([]byte, 8)
		binary.BigEndian.PutUint64(b, v)
		return b[8-n:]
	}
	switch sp.Type {
	case entities.Unsigned8, entities.Signed8:
		return be(1, pick64())
	case entities.Unsigned16, entities.Signed16:
		return be(2, pick64())
	case entities.Unsigned32, entities.Signed32, entities.DateTimeSeconds:
		return be(4, pick64())
	case entities.Unsigned64, entities.Signed64, entities.DateTimeMilliseconds:
		return be(8, pick64())
	case entities.Float32:
		if r.IntN(2) == 0 {
			return be(4, uint64(f32pool[r.IntN(len(f32pool))]))
		}
		return be(4, uint64(r.Uint32()))
	case entities.Float64:
		if r.IntN(2) == 0 {
			return be(8, f64pool[r.IntN(len(f64pool))])
		}
		return be(8, r.Uint64())
	case entities.Boolean:
		if r.IntN(2) == 0 {
			return []byte{1}
		}
		return []byte{2}
	case entities.MacAddress:
		b := make([]byte, 6)
		for i := range b {
			b[i] = byte(r.Uint32())
		}
		return b
	case entities.Ipv4Address:
		switch r.IntN(4) {
		case 0:
			return []byte{0, 0, 0, 0}
		case 1:
			return []byte{255, 255, 255, 255}
		}
		return be(4, uint64(r.Uint32()))
	case entities.Ipv6Address:
		b := make([]byte, 16)
		switch r.IntN(5) {
		case 0: // ::
		case 1: // v4-mapped
			b[10], b[11] = 0xff, 0xff
			copy(b[12:], be(4, uint64(r.Uint32())))
		case 2:
			for i := range b {
				b[i] = 0xff
			}
		default:
			for i := range b {
				b[i] = byte(r.Uint32())
			}
		}
		return b
	case entities.String, entities.OctetArray:
		if sp.Len != entities.VariableLength {
			b := make([]byte, sp.Len)
			for i := range b {
				b[i] = byte(r.Uint32())
			}
			return b
		}
		n := 0
		if r.IntN(3) > 0 {
			n = strLens[r.IntN(len(strLens))]
		} else {
			n = r.IntN(40)
		}
		if n > maxVar {
			n = maxVar
		}
		if n < 0 {
			n = 0
		}
		b := make([]byte, n)
		for i := range b {
			if sp.Type == entities.String {
				b[i] = byte(0x20 + r.IntN(0x5f))
			} else {
				b[i] = byte(r.Uint32())
			}
		}
		if sp.Type == entities.String && n >= 4 && r.IntN(6) == 0 {
			// text in characters of 2, 3 and 4 bytes: n bytes are far fewer than n characters (the
			// variable-length prefix counts bytes)
			b = b[:0]
			for len(b) < n {
				c := []string{"\u00e9", "\u20ac", "\U0001F600", "x"}[r.IntN(4)]
				if len(b)+len(c) > n {
					c = "x"
				}
				b = append(b, c...)
			}
			return b
		}
		if sp.Type == entities.String && n > 0 && r.IntN(4) == 0 {
			// arbitrary (also non-UTF-8) bytes are legal Go strings
			b[r.IntN(n)] = byte(r.Uint32())
		}
		return b
	}
	panic("genWire: unsupported type")
}

// mkElement builds the typed element the library is handed for wire bytes w.
func mkElement(sp elemSpec, ie *entities.InfoElement, w []byte) entities.InfoElementWithValue {
	u := func() uint64 {
		var b [8]byte
		copy(b[8-len(w):], w)
		return binary.BigEndian.Uint64(b[:])
	}
	switch sp.Type {
	case entities.OctetArray:
		return entities.NewOctetArrayInfoElement(ie, append([]byte(nil), w...))
	case entities.Unsigned8:
		return entities.NewUnsigned8InfoElement(ie, uint8(u()))
	case entities.Unsigned16:
		return entities.NewUnsigned16InfoElement(ie, uint16(u()))
	case entities.Unsigned32:
		return entities.NewUnsigned32InfoElement(ie, uint32(u()))
	case entities.Unsigned64:
		return entities.NewUnsigned64InfoElement(ie, u())
	case entities.Signed8:
		return entities.NewSigned8InfoElement(ie, int8(u()))
	case entities.Signed16:
		return entities.NewSigned16InfoElement(ie, int16(u()))
	case entities.Signed32:
		return entities.NewSigned32InfoElement(ie, int32(u()))
	case entities.Signed64:
		return entities.NewSigned64InfoElement(ie, int64(u()))
	case entities.Float32:
		return entities.NewFloat32InfoElement(ie, math.Float32frombits(uint32(u())))
	case entities.Float64:
		return entities.NewFloat64InfoElement(ie, math.Float64frombits(u()))
	case entities.Boolean:
		return entities.NewBoolInfoElement(ie, w[0] == 1)
	case entities.DateTimeSeconds:
		return entities.NewDateTimeSecondsInfoElement(ie, uint32(u()))
	case entities.DateTimeMilliseconds:
		return entities.NewDateTimeMillisecondsInfoElement(ie, u())
	case entities.MacAddress:
		return entities.NewMacAddressInfoElement(ie, net.HardwareAddr(append([]byte(nil), w...)))
	case entities.Ipv4Address, entities.Ipv6Address:
		return entities.NewIPAddressInfoElement(ie, net.IP(append([]byte(nil), w...)))
	case entities.String:
		return entities.NewStringInfoElement(ie, string(w))
	}
	panic("mkElement: unsupported type")
}

// wireOf re-encodes a delivered element from its typed getters, independently
// of the library's encoder. ok=false when the element's dynamic value cannot be
// expressed for its type (e.g. an address of the wrong size).
func wireOf(el entities.InfoElementWithValue) (w []byte, ok bool) {
	be := func(n int, v uint64) []byte {
		b := make([]byte, 8)
		binary.BigEndian.PutUint64(b, v)
		return b[8-n:]
	}
	switch el.GetDataType() {
	case entities.OctetArray:
		return el.GetOctetArrayValue(), true
	case entities.Unsigned8:
		return be(1, uint64(el.GetUnsigned8Value())), true
	case entities.Unsigned16:
		return be(2, uint64(el.GetUnsigned16Value())), true
	case entities.Unsigned32:
		return be(4, uint64(el.GetUnsigned32Value())), true
	case entities.Unsigned64:
		return be(8, el.GetUnsigned64Value()), true
	case entities.Signed8:
		return be(1, uint64(el.GetSigned8Value())), true
	case entities.Signed16:
		return be(2, uint64(el.GetSigned16Value())), true
	case entities.Signed32:
		return be(4, uint64(el.GetSigned32Value())), true
	case entities.Signed64:
		return be(8, uint64(el.GetSigned64Value())), true
	case entities.Float32:
		return be(4, uint64(math.Float32bits(el.GetFloat32Value()))), true
	case entities.Float64:
		return be(8, math.Float64bits(el.GetFloat64Value())), true
	case entities.Boolean:
		if el.GetBooleanValue() {
			return []byte{1}, true
		}
		return []byte{2}, true
	case entities.DateTimeSeconds:
		return be(4, uint64(el.GetUnsigned32Value())), true
	case entities.DateTimeMilliseconds:
		return be(8, el.GetUnsigned64Value()), true
	case entities.MacAddress:
		return []byte(el.GetMacAddressValue()), true
	case entities.Ipv4Address:
		ip := el.GetIPAddressValue()
		if len(ip) == 4 {
			return []byte(ip), true
		}
		if v4 := ip.To4(); v4 != nil && len(ip) == 16 {
			return []byte(v4), true
		}
		return []byte(ip), false
	case entities.Ipv6Address:
		ip := el.GetIPAddressValue()
		return []byte(ip), len(ip) == 16
	case entities.String:
		return []byte(el.GetStringValue()), true
	}
	return nil, false
}

// encodedLen is the number of bytes a value occupies in a data record.
func encodedLen(sp elemSpec, w []byte) int {
	if sp.Len != entities.VariableLength {
		return int(sp.Len)
	}
	if len(w) < 255 {
		return len(w) + 1
	}
	return len(w) + 3
}

var (
	twinOnce sync.Once
	twinOf   map[int]int
)

// catalogTwin: another element of the catalogue with the same element id, data type and length and
// another enterprise number (an IANA element and its reverse counterpart).
func catalogTwin(i int) (int, bool) {
	twinOnce.Do(func() {
		twinOf = map[int]int{}
		type k struct {
			id  uint16
			t   entities.IEDataType
			len uint16
		}
		by := map[k][]int{}
		for j, e := range catalog {
			by[k{e.ID, e.Type, e.Len}] = append(by[k{e.ID, e.Type, e.Len}], j)
		}
		for _, js := range by {
			for a, j := range js {
				for _, j2 := range js[a+1:] {
					if catalog[j].Ent != catalog[j2].Ent {
						if _, ok := twinOf[j]; !ok {
							twinOf[j] = j2
						}
						if _, ok := twinOf[j2]; !ok {
							twinOf[j2] = j
						}
					}
				}
			}
		}
	})
	if i < 0 || i >= len(catalog) {
		return 0, false
	}
	j, ok := twinOf[i]
	return j, ok
}
