package harness

import (
	"encoding/hex"
	"fmt"
	"math/rand/v2"
	"net"
	"runtime"
	"runtime/debug"
	"strings"
	"time"

	"github.com/vmware/go-ipfix/pkg/collector"
	"github.com/vmware/go-ipfix/pkg/entities"
	"github.com/vmware/go-ipfix/pkg/verifsim/simrt"

	"verif/oracle/ipfixref"
	"verif/sim/plan"
)

// C03 — collector decoding is total and exact on arbitrary bytes.
//
// Plan ops: {K:"msg", X:hex bytes, S:how it was made}. Cfg: mode (0 strict, 1 keep,
// 2 drop), path (0: decode hook, no bubble; 1: real UDP server path in the simulator),
// extra (NumExtraElements).

func init() {
	register(&Prop{
		ID: "C03", Gen: genC03, Run: runC03, Quick: 40000, Thorough: 6000000,
		Real: []string{"pkg/collector decodePacket / decodeTemplateSet / decodeDataSet / template table (through the VerifDecodePacket hook)", "pkg/collector UDP server path (Start, socket read loop, per-client goroutine) for a fraction of runs", "pkg/entities value decoding", "pkg/registry"},
		Stub: []string{"OS sockets (simnet) on the UDP path", "network corruption = plan-chosen mutations of valid messages (bit flips, truncation, extension, splice, length tampering)"},
		Rule: "1-6 messages per run against one collector: grammar-generated templates (known, unknown, unsupported-type, degenerate) and data, then transport mutations, plus random bytes; three decoding modes; every delivered message compared with the reference parse (oracle/ipfixref + template-table model); non-trivial = at least one message was delivered and at least one was mutated or degenerate; distinct = distinct hash of (mode, message bytes)",
	})
}

func genC03(seed uint64, tier string) *plan.Plan {
	r := rand.New(rand.NewPCG(seed, 0xc03))
	pl := &plan.Plan{Cfg: map[string]int64{}, Mode: "plain"}
	pl.Cfg["mode"] = int64(r.IntN(3))
	pl.Cfg["extra"] = int64(r.IntN(3))
	if r.IntN(40) == 0 {
		pl.Cfg["path"] = 1
		pl.Mode = "sim"
	}
	if r.IntN(60) == 0 {
		// the template in force changes while a data set is being decoded (see c04.go, path 2)
		pl.Mode = "sim"
		genC04Concurrent(r, pl)
		return pl
	}
	doms := []uint32{1, 2}
	o := tmplOpts{unknown: true, degenerate: r.IntN(3) == 0, unsup: r.IntN(4) == 0, user: true, maxFields: 1 + r.IntN(8)}
	var tmpls []gTemplate
	var earlier [][]byte
	add := func(b []byte, how string) {
		pl.Ops = append(pl.Ops, plan.Op{K: "msg", X: hex.EncodeToString(b), S: how})
		earlier = append(earlier, b)
	}
	hdr := func() ipfixref.Header {
		return ipfixref.Header{ExportTime: r.Uint32(), Sequence: r.Uint32()}
	}
	n := 1 + r.IntN(6)
	for i := 0; i < n; i++ {
		x := r.IntN(10)
		switch {
		case len(tmpls) == 0 || x < 2:
			t := genTemplate(r, doms[r.IntN(2)], uint16(256+r.IntN(3)), o)
			how := "template"
			if len(tmpls) > 0 && r.IntN(3) == 0 {
				// a redefinition that differs from a template in force in one position only
				if nt, ok := nearVariant(r, tmpls[r.IntN(len(tmpls))], o); ok {
					t = nt
				}
			}
			b := t.templateMsg(hdr())
			if r.IntN(5) == 0 {
				b, how = mutate(r, b, earlier)
				how = "template+" + how
			} else {
				tmpls = append(tmpls, t)
			}
			add(b, how)
		case x == 8 && r.IntN(3) == 0:
			// not IPFIX by its version field; the body is a template for an id in force with another layout
			old := tmpls[r.IntN(len(tmpls))]
			t := genTemplate(r, old.Dom, old.ID, o)
			b := t.templateMsg(hdr())
			b[0], b[1] = 0, []byte{9, 0, 11}[r.IntN(3)]
			add(b, "template+version")
		case x < 9:
			t := tmpls[r.IntN(len(tmpls))]
			nrec := 1 + r.IntN(4)
			padOnly := r.IntN(12) == 0 // a set that holds padding and no record
			if padOnly {
				nrec = 0
			}
			body := t.dataBody(r, nrec, []int{0, 3, 40, 254, 255, 300}[r.IntN(6)], r.IntN(3) == 0, padOnly || r.IntN(4) == 0)
			b := t.dataMsg(hdr(), body)
			how := "data"
			if r.IntN(10) < 6 {
				var m string
				b, m = mutate(r, b, earlier)
				how += "+" + m
				if r.IntN(4) == 0 {
					b, m = mutate(r, b, earlier)
					how += "+" + m
				}
			}
			add(b, how)
		default:
			b := make([]byte, r.IntN(80))
			for j := range b {
				b[j] = byte(r.Uint32())
			}
			if len(b) >= 2 && r.IntN(2) == 0 {
				b[0], b[1] = 0, 10
			}
			add(b, "random")
		}
	}
	return pl
}

type decodeResult struct {
	msg   *entities.Message
	err   error
	panic any
	stack []byte
	stuck bool
}

// decodeGuarded runs the decode hook in its own goroutine under a step budget.
func decodeGuarded(cp *collector.CollectingProcess, b []byte, addr string) decodeResult {
	done := make(chan decodeResult, 1)
	exceeded := simrt.SetStepBudget(300_000)
	go func() {
		var res decodeResult
		defer func() {
			if p := recover(); p != nil {
				res.panic = p
				res.stack = debug.Stack()
			}
			done <- res
		}()
		res.msg, res.err = cp.VerifDecodePacket(b, addr)
	}()
	select {
	case res := <-done:
		simrt.ClearStepBudget()
		return res
	case <-exceeded:
		simrt.ClearStepBudget()
		return decodeResult{stuck: true}
	case <-time.After(20 * time.Second):
		return decodeResult{stuck: true}
	}
}

var modeNames = []collector.DecodingMode{collector.DecodingModeStrict, collector.DecodingModeLenientKeepUnknown, collector.DecodingModeLenientDropUnknown}

func whyClass(why string) string {
	switch {
	case strings.Contains(why, "no template"):
		return "no-template"
	case strings.Contains(why, "does not decode"):
		return "body-shape"
	case strings.Contains(why, "version"):
		return "version"
	case strings.Contains(why, "cut short"), strings.Contains(why, "shorter"):
		return "template-cut-short"
	case strings.Contains(why, "strict"):
		return "unknown-in-strict"
	case strings.Contains(why, "support"):
		return "unsupported-type"
	}
	return "other"
}

// judge compares what the collector did with the expectation (C03 reading: an
// error is always acceptable).
func judgeC03(prop string, out *plan.Outcome, mode int, i int, how string, exp expectation, d *dMsg) {
	if d == nil {
		return
	}
	switch exp.Kind {
	case "error":
		out.Violate(prop, "delivered-undecodable", whyClass(exp.Why), "message %d (%s): a message was delivered (template=%v, %d records) but %s", i, how, d.IsTemplate, len(d.Records), exp.Why)
	case "template":
		if !d.IsTemplate {
			out.Violate(prop, "kind-mismatch", "", "message %d (%s): template set delivered as data", i, how)
			return
		}
		if m := matchTemplate(exp.Fields, exp.ID, *d); m != "" {
			out.Violate(prop, "template-mismatch", "", "message %d (%s): %s", i, how, m)
		}
	case "data":
		if d.IsTemplate {
			out.Violate(prop, "kind-mismatch", "", "message %d (%s): data set delivered as template", i, how)
			return
		}
		var first string
		for _, alt := range exp.Alts {
			m := matchData(mode, exp.Fields, alt, *d)
			if m == "" {
				return
			}
			if first == "" {
				first = m
			}
		}
		out.Violate(prop, "data-mismatch", "", "message %d (%s): %s", i, how, first)
	}
}

// tableDiff compares the collector's template table with the model's.
func tableDiff(cp *collector.CollectingProcess, m *colModel) string {
	// Templates that define nothing (no field) are left out on both sides: whether such a template is
	// kept as an entry or not makes no difference to any later message (data for its id is refused
	// either way); what matters is that it took the place of the older definition.
	all := cp.VerifTemplates()
	got := all[:0:0]
	for _, t := range all {
		if len(t.IEs) > 0 {
			got = append(got, t)
		}
	}
	want := 0
	for _, fs := range m.tmpls {
		if len(fs) > 0 {
			want++
		}
	}
	if len(got) != want {
		return fmt.Sprintf("collector holds %d templates, model %d", len(got), want)
	}
	for _, t := range got {
		fs, ok := m.tmpls[tkey{t.Domain, t.ID}]
		if !ok {
			return fmt.Sprintf("collector holds template %d/%d, model does not", t.Domain, t.ID)
		}
		if len(fs) != len(t.IEs) {
			return fmt.Sprintf("template %d/%d: collector has %d fields, model %d", t.Domain, t.ID, len(t.IEs), len(fs))
		}
		for i := range fs {
			if fs[i].Ent != t.IEs[i].EnterpriseId || fs[i].ID != t.IEs[i].ElementId {
				return fmt.Sprintf("template %d/%d field %d: collector %d/%d, model %d/%d", t.Domain, t.ID, i, t.IEs[i].EnterpriseId, t.IEs[i].ElementId, fs[i].Ent, fs[i].ID)
			}
		}
	}
	if n := cp.VerifEmptyDomains(); n != 0 {
		return fmt.Sprintf("%d observation domains are kept with no template", n)
	}
	return ""
}

func runC03(pl *plan.Plan, out *plan.Outcome) {
	if cfgOr(pl, "path", 0) == 2 {
		runC04Concurrent(pl, out)
		return
	}
	if cfgOr(pl, "path", 0) == 1 {
		runC03UDP(pl, out)
		return
	}
	mode := int(cfgOr(pl, "mode", 0))
	cp, err := collector.InitCollectingProcess(collector.CollectorInput{Address: "10.0.0.1:4739", Protocol: "tcp", MaxBufferSize: 65535,
		DecodingMode: modeNames[mode], NumExtraElements: int(cfgOr(pl, "extra", 0))})
	if err != nil {
		out.Trouble = err.Error()
		return
	}
	go func() {
		for range cp.GetMsgChan() {
		}
	}()
	defer cp.CloseMsgChan()
	model := newColModel(mode)
	var ms runtime.MemStats
	delivered, interesting := 0, 0
	h := fnvNew()
	h.add([]byte{byte(mode)})
	for i, op := range pl.Ops {
		if op.K != "msg" {
			continue
		}
		b, _ := hex.DecodeString(op.X)
		h.add(b)
		if op.S != "template" && op.S != "data" {
			interesting++
		}
		exp := model.step(b)
		res := decodeGuarded(cp, b, "10.0.0.9:5555")
		out.Add("c03.messages", 1)
		for _, part := range strings.Split(op.S, "+")[1:] {
			out.Add("fault.mutation."+part, 1)
		}
		switch {
		case res.stuck:
			out.Violate(pl.Prop, "nontermination", "", "message %d (%s): decoding did not terminate within the step budget (expected: %s %s)", i, op.S, exp.Kind, exp.Why)
			return // the collector may be left in any state
		case res.panic != nil:
			out.Violate(pl.Prop, "panic", repoFrame(res.stack), "message %d (%s): panic: %v", i, op.S, res.panic)
			return
		case res.err != nil:
			out.Add("c03.errors", 1)
			if exp.Kind != "error" {
				out.Add("probe.error_on_decodable_message", 1)
				if dbgC03 {
					out.Add("dbg."+exp.Kind+"."+op.S+"."+firstWords(res.err.Error(), 8), 1)
				}
			}
		default:
			delivered++
			out.Add("c03.delivered", 1)
			d := captureMsg(res.msg)
			judgeC03(pl.Prop, out, mode, i, op.S, exp, &d)
		}
		if diff := tableDiff(cp, model); diff != "" {
			// The collector refused something the model accepted (always allowed under C03):
			// the states differ, stop judging this run.
			out.Add("probe.table_diverged_from_model", 1)
			break
		}
	}
	runtime.ReadMemStats(&ms)
	if ms.HeapAlloc > 3<<30 {
		out.Trouble = fmt.Sprintf("heap is %d MB", ms.HeapAlloc>>20)
	}
	out.Hash = h.hex()
	out.Nontrivial = delivered > 0 && interesting > 0
	out.Sample = map[string]any{"mode": mode, "messages": len(pl.Ops), "delivered": delivered}
}

// runC03UDP sends the same kind of traffic through the real UDP server path.
func runC03UDP(pl *plan.Plan, out *plan.Outcome) {
	env := newEnv(pl, out, keepLogFlag)
	mode := int(cfgOr(pl, "mode", 0))
	addr := "10.0.0.1:4739"
	cp, err := collector.InitCollectingProcess(collector.CollectorInput{Address: addr, Protocol: "udp", MaxBufferSize: 65535,
		DecodingMode: modeNames[mode], NumExtraElements: int(cfgOr(pl, "extra", 0)), TemplateTTL: 3600})
	if err != nil {
		out.Trouble = err.Error()
		return
	}
	model := newColModel(mode)
	var got []dMsg
	env.Go("collector", func() { cp.Start() })
	env.Go("consumer", func() {
		for {
			var msg *entities.Message
			var ok bool
			Block("consume", func() { msg, ok = <-cp.GetMsgChan() })
			if !ok {
				return
			}
			got = append(got, captureMsg(msg))
		}
	})
	env.Go("client", func() {
		env.Sleep(time.Millisecond)
		c, err := env.Net.DialUDP(&net.UDPAddr{IP: net.ParseIP("10.0.0.1"), Port: 4739})
		if err != nil {
			out.Trouble = err.Error()
			return
		}
		for i, op := range pl.Ops {
			if op.K != "msg" {
				continue
			}
			b, _ := hex.DecodeString(op.X)
			if len(b) == 0 {
				continue // an empty datagram is the collector's "stop" signal on this code path
			}
			exp := model.step(b)
			n0 := len(got)
			Block("send", func() { c.Write(b) })
			env.Sleep(time.Second) // everything the datagram causes happens before the clock can move
			out.Add("c03.messages", 1)
			switch n := len(got) - n0; {
			case n == 1:
				d := got[n0]
				judgeC03(pl.Prop, out, mode, i, op.S, exp, &d)
			case n > 1:
				out.Violate(pl.Prop, "delivered-undecodable", "extra", "UDP path: message %d (%s) produced %d deliveries", i, op.S, n)
			}
			if diff := tableDiff(cp, model); diff != "" {
				out.Add("probe.table_diverged_from_model", 1)
				break
			}
		}
		c.Close()
		Block("stop", func() { cp.Stop() })
		cp.CloseMsgChan()
	})
	res := env.Run()
	if res == "steplimit" {
		out.Violate(pl.Prop, "nontermination", "", "UDP path: decoding did not terminate within the step budget")
		return
	}
	if res != "done" && out.Trouble == "" {
		env.runEnded(res, out)
		return
	}
	out.Add("c03.delivered", int64(len(got)))
	out.Nontrivial = len(got) > 0
	out.Sample = map[string]any{"mode": mode, "path": "udp", "delivered": len(got)}
}

type fnvH struct{ h uint64 }

func fnvNew() *fnvH { return &fnvH{14695981039346656037} }
func (f *fnvH) add(b []byte) {
	for _, c := range b {
		f.h ^= uint64(c)
		f.h *= 1099511628211
	}
	f.h ^= 0xff
	f.h *= 1099511628211
}
func (f *fnvH) hex() string { return fmt.Sprintf("%016x", f.h) }

var dbgC03 = false

func firstWords(s string, n int) string {
	w := strings.Fields(s)
	if len(w) > n {
		w = w[:n]
	}
	return strings.Join(w, "_")
}
