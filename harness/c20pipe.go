package harness

import (
	"encoding/json"
	"fmt"
	"math/rand/v2"
	"net/http/httptest"
	"strconv"
	"strings"

	"time"

	"github.com/vmware/go-ipfix/pkg/collector"
	"github.com/vmware/go-ipfix/pkg/entities"
	cmdc "github.com/vmware/go-ipfix/pkg/verifsim/cmdcollector"
	"github.com/vmware/go-ipfix/pkg/verifsim/simnet"

	"verif/oracle/ipfixref"
	"verif/sim/plan"
)

// Pipeline member of C20: the store is filled the way the standalone collector fills it - what its
// collecting process delivers for the bytes it receives is what addIPFIXMessage is handed. Among the
// valid messages of a session are ones the collecting process has to refuse (a record cut short,
// data for an id that has no template, bytes that are no message). "The most recently received
// messages in arrival order" are then the valid ones, all of them: a refused message says nothing
// about the next.

func genC20Pipeline(r *rand.Rand, pl *plan.Plan) {
	pl.Cfg["pipeline"] = 1
	if r.IntN(2) == 0 {
		// the whole way: a TCP session to a started collecting process whose message channel feeds the
		// store, as run() wires it. Valid messages only (an invalid one ends a TCP session), some of
		// them with padding behind the last record.
		pl.Cfg["pipe_tcp"] = 1
		pl.Cfg["mode"] = int64(r.IntN(3))
		for i, n := 0, 3+r.IntN(10); i < n; i++ {
			kind := []string{"data", "data", "padded", "padded", "tmpl"}[r.IntN(5)]
			pl.Ops = append(pl.Ops, plan.Op{K: "pmsg", S: kind, A: int64(r.IntN(2)), B: int64(1 + r.IntN(3)), C: int64(r.Uint64() >> 1), D: int64(r.IntN(3))})
		}
		genSchedule(r, pl, 4, 3000)
		return
	}
	pl.Mode = "plain"
	pl.Cfg["mode"] = int64(r.IntN(3))
	n := 4 + r.IntN(14)
	for i := 0; i < n; i++ {
		kind := []string{"data", "data", "data", "cut", "cut", "unkdata", "random", "tmpl"}[r.IntN(8)]
		pl.Ops = append(pl.Ops, plan.Op{K: "pmsg", S: kind, A: int64(r.IntN(2)), B: int64(1 + r.IntN(3)), C: int64(r.Uint64() >> 1)})
	}
}

func c20PipeTemplate(slot int) gTemplate {
	// a fixed-width field, a variable-length string, another fixed-width field
	name := catByName("interfaceName")
	t := gTemplate{Dom: 9, ID: uint16(256 + slot), Fields: []gField{
		{F: ipfixref.Field{ID: 10, Len: 4}, Known: true, Spec: catByName("ingressInterface"), Width: 4},
		{F: name.field(), Known: true, Spec: name, Width: name.Len},
		{F: ipfixref.Field{ID: 1, Len: 8}, Known: true, Spec: catByName("octetDeltaCount"), Width: 8},
	}}
	if slot == 1 {
		t.Fields = t.Fields[1:]
	}
	return t
}

type plainEnv struct {
	pl  *plan.Plan
	out *plan.Outcome
}

func (e plainEnv) Violate(clause, loc, format string, a ...any) {
	e.out.Violate(e.pl.Prop, clause, loc, format, a...)
}
func (e plainEnv) Count(k string, n int64) { e.out.Add(k, n) }

func splitTextEntries(body string) []string {
	parts := strings.Split(body, strings.Repeat("=", 80))
	if len(parts) > 0 && parts[len(parts)-1] == "" {
		parts = parts[:len(parts)-1]
	}
	return parts
}

func catByName(n string) elemSpec {
	for _, sp := range catalog {
		if sp.Name == n && sp.Ent == 0 {
			return sp
		}
	}
	panic("catalogue has no " + n)
}

// runC20PipeTCP: client -> TCP -> collecting process -> message channel -> addIPFIXMessage -> queries.
func runC20PipeTCP(pl *plan.Plan, out *plan.Outcome) {
	env := newEnv(pl, out, keepLogFlag)
	cmdc.VerifClear()
	addr := "10.0.0.1:4739"
	cp, err := collector.InitCollectingProcess(collector.CollectorInput{Address: addr, Protocol: "tcp", MaxBufferSize: 65535, DecodingMode: modeNames[int(cfgOr(pl, "mode", 0))%3]})
	if err != nil {
		out.Trouble = err.Error()
		return
	}
	var want []int
	env.Go("collector", func() { cp.Start() })
	env.Go("store", func() {
		for {
			var msg *entities.Message
			var ok bool
			Block("consume", func() { msg, ok = <-cp.GetMsgChan() })
			if !ok {
				return
			}
			cmdc.VerifAdd(msg)
		}
	})
	env.Go("client", func() {
		env.Sleep(time.Millisecond)
		var c *simnet.Conn
		var err error
		Block("dial", func() { c, err = env.Net.Dial("tcp", addr) })
		if err != nil {
			out.Trouble = "dial: " + err.Error()
			return
		}
		seq := uint32(1000)
		sent := [2]bool{}
		write := func(b []byte) {
			Block("write", func() { c.Write(b) })
			want = append(want, int(seq))
		}
		for i, op := range pl.Ops {
			if op.K != "pmsg" {
				continue
			}
			slot := int(op.A) & 1
			t := c20PipeTemplate(slot)
			r := rand.New(rand.NewPCG(uint64(op.C), 0xc20e))
			seq++
			h := ipfixref.Header{Sequence: seq, ExportTime: 946684800 + uint32(i)}
			if !sent[slot] {
				write(t.templateMsg(h))
				sent[slot] = true
				seq++
				h.Sequence = seq
			}
			switch op.S {
			case "tmpl":
				write(t.templateMsg(h))
			case "padded":
				body := t.dataBody(r, int(op.B), 40, false, false)
				body = append(body, make([]byte, 1+int(op.D))...) // 1-3 bytes: shorter than any record
				write(t.dataMsg(h, body))
				env.Count("probe.padded_set_followed_by_more", 1)
			default:
				write(t.dataMsg(h, t.dataBody(r, int(op.B), 40, false, false)))
			}
			if op.D == 2 {
				env.Sleep(time.Millisecond)
			}
		}
		env.Sleep(time.Second)
		Block("close", func() { c.Close() })
		env.Sleep(time.Second)
		Block("stop", func() { cp.Stop() })
		cp.CloseMsgChan()
	})
	if res := env.Run(); res != "done" && out.Trouble == "" {
		env.runEnded(res, out)
		return
	}
	c20CheckWindow(plainEnv{pl, out}, want)
	out.Add("c20.pipeline_member", 1)
	out.Add("c20.arrivals", int64(len(want)))
	out.Nontrivial = len(want) >= 2
	out.Sample = map[string]any{"member": "pipeline over tcp", "stored": len(want), "operations": len(pl.Ops)}
}

func runC20Pipeline(pl *plan.Plan, out *plan.Outcome) {
	if cfgOr(pl, "pipe_tcp", 0) == 1 {
		runC20PipeTCP(pl, out)
		return
	}
	env := plainEnv{pl, out} // no scheduler: one goroutine drives the collecting process's decode path
	cmdc.VerifClear()
	cp, err := collector.InitCollectingProcess(collector.CollectorInput{Address: "10.0.0.1:4739", Protocol: "tcp", MaxBufferSize: 65535, DecodingMode: modeNames[int(cfgOr(pl, "mode", 0))%3]})
	if err != nil {
		out.Trouble = err.Error()
		return
	}
	go func() {
		for range cp.GetMsgChan() {
		}
	}()
	defer cp.CloseMsgChan()
	const peer = "10.0.1.1:999"
	var want []int // sequence numbers of the messages that have to be in the store, in arrival order
	seq := uint32(1000)
	feed := func(b []byte, valid bool, what string) {
		res := decodeGuarded(cp, b, peer)
		if res.panic != nil || res.stuck {
			env.Violate("pipeline-crash", "", "%s: the collecting process panicked or hung: %v", what, res.panic)
			return
		}
		if res.err == nil && res.msg != nil {
			cmdc.VerifAdd(res.msg)
			want = append(want, int(res.msg.GetSequenceNum()))
			return
		}
		if valid {
			env.Violate("received-not-stored", what, "message %d (%s) is a valid message of the session, the collecting process refused it (%v): it never reaches the store, which no longer holds the most recently received messages", seq, what, res.err)
		}
	}
	sent := [2]bool{}
	for i, op := range pl.Ops {
		if op.K != "pmsg" {
			continue
		}
		slot := int(op.A) & 1
		t := c20PipeTemplate(slot)
		r := rand.New(rand.NewPCG(uint64(op.C), 0xc20e))
		seq++
		h := ipfixref.Header{Sequence: seq, ExportTime: 946684800 + uint32(i)}
		if !sent[slot] {
			feed(t.templateMsg(h), true, "template")
			sent[slot] = true
			seq++
			h.Sequence = seq
		}
		switch op.S {
		case "tmpl":
			feed(t.templateMsg(h), true, "template-again")
		case "data":
			feed(t.dataMsg(h, t.dataBody(r, int(op.B), 40, false, false)), true, "data")
		case "cut":
			// the last record's string announces more bytes than the set holds
			body := t.dataBody(r, int(op.B), 40, false, false)
			tail := []byte{0, 0, 0, 7, 200, 'a', 'b', 'c', 'd', 'e', 'f', 'g', 'h', 'i', 'j', 'k', 'l'}
			if slot == 1 {
				tail = tail[4:]
			}
			feed(t.dataMsg(h, append(body, tail...)), false, "data-cut")
			env.Count("fault.data_record_cut_short", 1)
		case "unkdata":
			u := t
			u.ID = 300
			feed(u.dataMsg(h, t.dataBody(r, 1, 10, false, false)), false, "data-unknown-template")
		case "random":
			b := make([]byte, 4+r.IntN(40))
			for j := range b {
				b[j] = byte(r.Uint32())
			}
			feed(b, false, "random")
		}
	}
	c20CheckWindow(env, want)
	out.Add("c20.pipeline_member", 1)
	out.Add("c20.arrivals", int64(len(want)))
	out.Nontrivial = len(want) >= 2
	out.Hash = fmt.Sprintf("pipe-%d", pl.Seed)
	out.Sample = map[string]any{"member": "pipeline", "stored": len(want), "operations": len(pl.Ops)}
}

// c20CheckWindow: the store holds exactly the messages with the sequence numbers in want, in order.
func c20CheckWindow(env plainEnv, want []int) {
	for _, q := range []struct {
		n      int
		format string
	}{{len(want), "json"}, {3, "text"}, {cmdc.VerifCap, ""}} {
		url := "/records?count=" + strconv.Itoa(q.n)
		if q.format != "" {
			url += "&format=" + q.format
		}
		w := httptest.NewRecorder()
		cmdc.VerifRecordsHandler(w, httptest.NewRequest("GET", url, nil))
		var entries []string
		if q.format == "text" {
			entries = splitTextEntries(w.Body.String())
		} else {
			var resp struct {
				FlowRecords []string `json:"flowRecords"`
			}
			if err := json.Unmarshal(w.Body.Bytes(), &resp); err != nil && q.n > 0 {
				env.Violate("response-not-json", "", "GET %s: %v", url, err)
			}
			entries = resp.FlowRecords
		}
		var got []int
		for _, e := range entries {
			if m := seqRe.FindStringSubmatch(e); m != nil {
				id, _ := strconv.Atoi(m[1])
				got = append(got, id)
			} else {
				got = append(got, -1)
			}
		}
		exp := want
		if q.n < len(exp) {
			exp = exp[len(exp)-q.n:]
		}
		if fmt.Sprint(got) != fmt.Sprint(exp) && !(len(got) == 0 && len(exp) == 0) {
			env.Violate("window", "pipeline", "GET %s returns the messages with sequence numbers %v, the last %d received are %v", url, got, len(exp), exp)
		}
	}
}
