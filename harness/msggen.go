package harness

import (
	"encoding/binary"
	"math/rand/v2"

	"github.com/vmware/go-ipfix/pkg/entities"

	"verif/oracle/ipfixref"
)

// Message generators for collector-side simulations. Everything is encoded
// with oracle/ipfixref (no library code).

type gField struct {
	F     ipfixref.Field // as written on the wire
	Known bool
	Spec  elemSpec
	Width uint16 // width the data generator uses (registry width for known elements)
}

type gTemplate struct {
	Dom    uint32
	ID     uint16
	Fields []gField
}

// unsupported-type registry elements (basicList 291, subTemplateList 292, subTemplateMultiList 293, dateTimeMicroseconds 154 ...)
var unsupportedIDs = []uint16{291, 292, 293, 154, 155, 156, 157}

type tmplOpts struct {
	unknown    bool // allow unknown elements
	degenerate bool // allow zero fields / zero-length unknown elements
	unsup      bool // allow registry elements of unsupported type
	user       bool
	maxFields  int
}

func genTemplate(r *rand.Rand, dom uint32, id uint16, o tmplOpts) gTemplate {
	t := gTemplate{Dom: dom, ID: id}
	n := 1 + r.IntN(max(1, o.maxFields))
	if o.degenerate && r.IntN(6) == 0 {
		n = 0
	}
	for i := 0; i < n; i++ {
		x := r.IntN(20)
		switch {
		case o.unknown && x < 4:
			f := ipfixref.Field{ID: uint16(20000 + r.IntN(100)), Len: []uint16{1, 2, 4, 8, 3, 65535, 17}[r.IntN(7)]}
			if r.IntN(2) == 0 {
				f.Ent = []uint32{12345, 29305, 56506, 1}[r.IntN(4)]
				if f.Ent == 29305 || f.Ent == 56506 {
					f.ID = uint16(30000 + r.IntN(100)) // unknown id inside a known enterprise registry
				}
			}
			if o.degenerate && r.IntN(4) == 0 {
				f.Len = 0
			}
			t.Fields = append(t.Fields, gField{F: f, Width: f.Len})
		case o.unsup && x == 4:
			t.Fields = append(t.Fields, gField{F: ipfixref.Field{ID: unsupportedIDs[r.IntN(len(unsupportedIDs))], Len: 65535}, Width: 65535})
		default:
			var sp elemSpec
			if o.user && r.IntN(5) == 0 {
				sp = catalogUser[r.IntN(len(catalogUser))]
			} else {
				sp = catalog[r.IntN(len(catalog))]
			}
			f := sp.field()
			if r.IntN(25) == 0 && sp.Len != entities.VariableLength {
				f.Len = []uint16{1, 2, 3, 65535}[r.IntN(4)] // wire length differs from the registry's
			}
			t.Fields = append(t.Fields, gField{F: f, Known: true, Spec: sp, Width: sp.Len})
		}
	}
	return t
}

// nearVariant returns a template for the same (domain, id) that differs from t in one position only:
// an unknown element is replaced by another unknown one (other id, other length or both), a registry
// element by another registry element. Count and all other positions stay, which is the shape a
// "this is only a refresh" shortcut is most likely to mistake for the template it already holds.
func nearVariant(r *rand.Rand, t gTemplate, o tmplOpts) (gTemplate, bool) {
	if len(t.Fields) == 0 {
		return t, false
	}
	nt := gTemplate{Dom: t.Dom, ID: t.ID, Fields: append([]gField(nil), t.Fields...)}
	pos := r.IntN(len(nt.Fields))
	for i := range nt.Fields { // prefer an unknown element when there is one
		if !nt.Fields[i].Known && nt.Fields[i].F.Len != 65535 && r.IntN(2) == 0 {
			pos = i
			break
		}
	}
	old := nt.Fields[pos]
	if !old.Known {
		if !o.unknown {
			return t, false
		}
		f := old.F
		switch r.IntN(3) {
		case 0:
			f.ID++
		case 1:
			f.Len = []uint16{1, 2, 4, 8, 3, 17}[r.IntN(6)]
		default:
			f.ID++
			f.Len = []uint16{1, 2, 4, 8, 3, 17}[r.IntN(6)]
		}
		if f == old.F {
			f.Len++
		}
		nt.Fields[pos] = gField{F: f, Width: f.Len}
		return nt, true
	}
	for try := 0; try < 8; try++ {
		sp := catalog[r.IntN(len(catalog))]
		if sp.field() != old.F {
			nt.Fields[pos] = gField{F: sp.field(), Known: true, Spec: sp, Width: sp.Len}
			return nt, true
		}
	}
	return t, false
}

func (t gTemplate) wireFields() []ipfixref.Field {
	out := make([]ipfixref.Field, len(t.Fields))
	for i, f := range t.Fields {
		out[i] = f.F
	}
	return out
}

func (t gTemplate) templateMsg(h ipfixref.Header) []byte {
	h.Domain = t.Dom
	body := ipfixref.EncodeTemplateRecord(ipfixref.TemplateRecord{ID: t.ID, Fields: t.wireFields()})
	return ipfixref.EncodeMessage(h, ipfixref.EncodeSet(ipfixref.TemplateSetID, body))
}

// dataBody builds nrec records at the generator widths; longPrefix forces
// 3-byte prefixes on some variable-length values; pad appends zero padding
// shorter than the minimum record.
func (t gTemplate) dataBody(r *rand.Rand, nrec int, maxVar int, longPrefix bool, pad bool) []byte {
	var out []byte
	min := 0
	for _, f := range t.Fields {
		if f.Width == 65535 {
			min++
		} else {
			min += int(f.Width)
		}
	}
	for i := 0; i < nrec; i++ {
		for _, f := range t.Fields {
			var v []byte
			if f.Known {
				v = genWire(r, f.Spec, maxVar)
			} else if f.Width == 65535 {
				v = make([]byte, r.IntN(maxVar+1))
				for j := range v {
					v[j] = byte(r.Uint32())
				}
			} else {
				v = make([]byte, f.Width)
				for j := range v {
					v[j] = byte(r.Uint32())
				}
			}
			if f.Width == 65535 {
				if longPrefix && r.IntN(3) == 0 {
					out = append(out, ipfixref.EncodeVarLong(v)...)
				} else {
					out = append(out, ipfixref.EncodeVar(v)...)
				}
			} else {
				out = append(out, v...)
			}
		}
	}
	if pad && min > 1 {
		out = append(out, make([]byte, 1+r.IntN(min-1))...)
	}
	return out
}

func (t gTemplate) dataMsg(h ipfixref.Header, body []byte) []byte {
	h.Domain = t.Dom
	return ipfixref.EncodeMessage(h, ipfixref.EncodeSet(t.ID, body))
}

// mutate applies one transport-corruption to a message.
func mutate(r *rand.Rand, b []byte, earlier [][]byte) ([]byte, string) {
	b = append([]byte(nil), b...)
	if len(b) == 0 {
		return b, "none"
	}
	switch r.IntN(12) {
	case 0: // bit flips
		n := 1 + r.IntN(3)
		for i := 0; i < n; i++ {
			b[r.IntN(len(b))] ^= 1 << r.IntN(8)
		}
		return b, "bitflip"
	case 1: // truncate anywhere
		return b[:r.IntN(len(b))], "truncate"
	case 2: // truncate inside the body
		if len(b) > 21 {
			return b[:20+r.IntN(len(b)-20)], "truncate-body"
		}
		return b[:r.IntN(len(b))], "truncate"
	case 3: // truncate by 1..8 bytes
		k := 1 + r.IntN(8)
		if k > len(b) {
			k = len(b)
		}
		return b[:len(b)-k], "truncate-tail"
	case 4: // extend with random bytes
		k := 1 + r.IntN(12)
		for i := 0; i < k; i++ {
			b = append(b, byte(r.Uint32()))
		}
		return b, "extend-random"
	case 5: // extend with zeros
		return append(b, make([]byte, 1+r.IntN(12))...), "extend-zero"
	case 6: // tamper message length
		if len(b) >= 4 {
			binary.BigEndian.PutUint16(b[2:4], uint16(r.IntN(70000)))
		}
		return b, "tamper-msglen"
	case 7: // tamper set length
		if len(b) >= 20 {
			binary.BigEndian.PutUint16(b[18:20], uint16(r.IntN(len(b)+8)))
		}
		return b, "tamper-setlen"
	case 8: // tamper a byte in the body to 0xff / 0x00 (hits variable-length prefixes)
		if len(b) > 20 {
			b[20+r.IntN(len(b)-20)] = []byte{0xff, 0x00, 0xfe, 0x01}[r.IntN(4)]
		}
		return b, "tamper-body-byte"
	case 9: // splice a region of an earlier message
		if len(earlier) > 0 {
			e := earlier[r.IntN(len(earlier))]
			if len(e) > 0 && len(b) > 16 {
				i := r.IntN(len(e))
				j := i + r.IntN(len(e)-i)
				at := 16 + r.IntN(len(b)-16)
				out := append(append(append([]byte(nil), b[:at]...), e[i:j]...), b[at:]...)
				return out, "splice"
			}
		}
		return b, "none"
	case 10: // change the set id
		if len(b) >= 18 {
			binary.BigEndian.PutUint16(b[16:18], uint16(256+r.IntN(4)))
		}
		return b, "tamper-setid"
	default: // duplicate the tail region
		if len(b) > 20 {
			i := 20 + r.IntN(len(b)-20)
			return append(b, b[i:]...), "dup-tail"
		}
		return b, "none"
	}
}
