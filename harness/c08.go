package harness

import (
	"math/rand/v2"
	"time"

	"verif/sim/plan"
)

// C08 — exporter sequence numbers and header bookkeeping across a session.

func init() {
	register(&Prop{
		ID: "C08", Gen: genC08, Run: runC08, Quick: 1500, Thorough: 200000,
		Real: []string{"pkg/exporter (InitExportingProcess, SendSet, refresh goroutine, connection-check goroutine)", "pkg/entities (set/record/message builders, codec)", "pkg/registry"},
		Stub: []string{"OS sockets (simnet)", "wall clock (synctest bubble)"},
		Rule: "plans are generated from the run seed (session of template/data SendSet calls, clock advances around refresh ticks, counter placed near 2^32 by hook; a second sender, a slow collector, sends after Close, two exporting processes at the same time); non-trivial = at least 3 successful sends; distinct = distinct event-log hash",
	})
}

// smallElems are catalogue indices of fixed-size, cheap elements chosen at init.
func pickElems(r *rand.Rand, n int, user bool) []int64 {
	out := make([]int64, 0, n)
	for len(out) < n {
		if user && r.IntN(4) == 0 {
			out = append(out, int64(100000+r.IntN(len(catalogUser))))
		} else {
			out = append(out, int64(r.IntN(len(catalog))))
		}
	}
	return out
}

func genSchedule(r *rand.Rand, pl *plan.Plan, maxPre int, stepsHint int) {
	pl.Sched.Seed = r.Uint64()
	pl.Sched.Sticky = []int{0, 50, 80, 95}[r.IntN(4)]
	pl.Sched.UnlockYield = []int{0, 0, 30, 70}[r.IntN(4)]
	if maxPre > 0 && stepsHint > 0 {
		n := r.IntN(maxPre + 1)
		for i := 0; i < n; i++ {
			// placed relative to the measured length of the run (see plan.Sched.PreemptFrac)
			pl.Sched.PreemptFrac = append(pl.Sched.PreemptFrac, r.Float64())
		}
	}
}

func genC08(seed uint64, tier string) *plan.Plan {
	r := rand.New(rand.NewPCG(seed, 0xc08))
	pl := &plan.Plan{Cfg: map[string]int64{}}
	if r.IntN(12) == 0 {
		initC09Index()
		genTwoExporters(r, pl)
		return pl
	}
	udp := r.IntN(2) == 1
	if udp {
		pl.Cfg["proto"] = 1
		pl.Cfg["refresh"] = []int64{1, 2, 5, 60, 600, 0}[r.IntN(6)]
	}
	pl.Cfg["domain"] = int64(r.Uint32())
	pl.Cfg["v6"] = int64(r.IntN(2))
	refresh := time.Duration(pl.Cfg["refresh"]) * time.Second
	if udp && refresh == 0 {
		refresh = 600 * time.Second
	}
	nT := 1 + r.IntN(3)
	for i := 0; i < nT; i++ {
		pl.Ops = append(pl.Ops, plan.Op{K: "tmpl", A: int64(i), N: pickElems(r, 1+r.IntN(6), false)})
	}
	nOps := 5 + r.IntN(40)
	if tier == "thorough" {
		nOps = 5 + r.IntN(200)
	}
	// a slow collector and a second goroutine of the application sending through the same
	// exporting process: messages wait their turn behind a send that is blocked on the full window
	slow := !udp && r.IntN(3) == 0
	if slow {
		pl.Cfg["window"] = []int64{512, 2048, 8192}[r.IntN(3)]
		pl.Cfg["sender2"] = 1
	}
	if r.IntN(3) == 0 {
		// near the 2^32 wrap
		pl.Ops = append(pl.Ops, plan.Op{K: "setseq", A: int64(uint32(0) - uint32(r.IntN(300)))})
	}
	for i := 0; i < nOps; i++ {
		if slow && r.IntN(5) == 0 {
			// the collector stops reading for a while; the second sender is told to send (a new
			// template, or records under one of its templates) and the application sends something big
			pl.Ops = append(pl.Ops, plan.Op{K: "stallnow", B: int64(500 + r.IntN(7000))})
			for k := 1 + r.IntN(2); k > 0; k-- {
				pl.Ops = append(pl.Ops, plan.Op{K: "send2", A: int64(r.IntN(800)), B: int64(r.IntN(4)), C: int64(r.Uint64() >> 1), N: pickElems(r, 1+r.IntN(4), false)})
			}
			pl.Ops = append(pl.Ops, plan.Op{K: "data", A: int64(r.IntN(nT)), B: int64(20 + r.IntN(30)), C: int64(r.Uint64() >> 1), D: int64(100 + r.IntN(200))})
			continue
		}
		switch x := r.IntN(10); {
		case x < 6:
			pl.Ops = append(pl.Ops, plan.Op{K: "data", A: int64(r.IntN(nT)), B: int64(1 + r.IntN(1+r.IntN(40))), C: int64(r.Uint64() >> 1), D: int64(r.IntN(300)),
				S: []string{"", "extra", "v2"}[r.IntN(3)]})
			if r.IntN(8) == 0 {
				pl.Ops = append(pl.Ops[:len(pl.Ops)-1], plan.Op{K: []string{"emptyprep", "emptysend"}[r.IntN(2)], A: int64(r.IntN(nT))}, pl.Ops[len(pl.Ops)-1])
			}
			if r.IntN(8) == 0 {
				pl.Ops = append(pl.Ops, plan.Op{K: "resend", S: []string{"", "prep", "grow"}[r.IntN(3)], C: int64(r.Uint64() >> 1)})
			}
			if r.IntN(12) == 0 {
				pl.Ops = append(pl.Ops, plan.Op{K: "tmplagain", A: int64(r.IntN(nT))})
			}
		case x < 8:
			var d time.Duration
			switch r.IntN(6) {
			case 0:
				d = time.Duration(r.IntN(2000)) * time.Millisecond
			case 1:
				d = time.Second
			case 2:
				d = refresh
			case 3:
				d = refresh - time.Nanosecond
			case 4:
				d = refresh + time.Nanosecond
			case 5:
				d = time.Duration(r.Int64N(int64(3*refresh + time.Second)))
			}
			if d < 0 {
				d = 0
			}
			pl.Ops = append(pl.Ops, plan.Op{K: "adv", A: int64(d)})
		case x < 9:
			if nT < 6 {
				pl.Ops = append(pl.Ops, plan.Op{K: "tmpl", A: int64(nT), N: pickElems(r, 1+r.IntN(6), false)})
				nT++
			}
		default:
			// moving the counter by hook in mid-session is only meaningful when no background send
			// can be in flight (the hook is not part of the library's synchronisation): tcp only
			if !udp && !slow && r.IntN(4) == 0 {
				pl.Ops = append(pl.Ops, plan.Op{K: "setseq", A: int64(uint32(0) - uint32(r.IntN(100)))})
			}
		}
	}
	if !slow && r.IntN(4) == 0 {
		// a transport write fault on the application's last send (the stream is unusable afterwards)
		kind := int64(1 + r.IntN(3))
		if udp {
			kind = 3
		}
		pl.Ops = append(pl.Ops, plan.Op{K: "wfault", A: kind, B: int64(r.IntN(64))},
			plan.Op{K: "data", A: int64(r.IntN(nT)), B: int64(1 + r.IntN(5)), C: int64(r.Uint64() >> 1), D: 20})
	}
	if r.IntN(6) == 0 {
		// the application goes on calling SendSet after it closed the exporting process: whatever such
		// a call reports, a call that reports success has put exactly one message on the wire
		pl.Ops = append(pl.Ops, plan.Op{K: "close"})
		for k := 1 + r.IntN(3); k > 0; k-- {
			pl.Ops = append(pl.Ops, plan.Op{K: "data", A: int64(r.IntN(nT)), B: int64(1 + r.IntN(4)), C: int64(r.Uint64() >> 1), D: 20})
		}
	}
	if udp && !slow {
		// Transient write errors in mid-session: a datagram socket reports a refused or unreachable
		// destination on a later write and stays usable. Nothing of the failed call is written; a failed
		// template announcement must leave the counter where it was, a failed data attempt may or may
		// not have moved it (seqCheck). Drawn from a stream of its own: the plans of older seeds stay as they were.
		r2 := rand.New(rand.NewPCG(seed, 0xc08f))
		if r2.IntN(3) == 0 {
			for k := 1 + r2.IntN(3); k > 0; k-- {
				at := nT + r2.IntN(len(pl.Ops)-nT+1)
				var op plan.Op
				if r2.IntN(3) != 0 {
					op = plan.Op{K: "tmplagain", A: int64(r2.IntN(nT))}
				} else {
					op = plan.Op{K: "data", A: int64(r2.IntN(nT)), B: int64(1 + r2.IntN(5)), C: int64(r2.Uint64() >> 1), D: 20}
				}
				ins := []plan.Op{{K: "wfault", A: 3}, op, {K: "data", A: int64(r2.IntN(nT)), B: int64(1 + r2.IntN(4)), C: int64(r2.Uint64() >> 1), D: 20}}
				pl.Ops = append(pl.Ops[:at], append(ins, pl.Ops[at:]...)...)
			}
		}
	}
	genSchedule(r, pl, 3, 40*len(pl.Ops))
	return pl
}

func runC08(pl *plan.Plan, out *plan.Outcome) {
	if cfgOr(pl, "two", 0) == 1 {
		runTwoExporters(pl, out, func(s *expSession) {
			s.checkBookkeeping()
			s.seqCheck()
		})
		return
	}
	env := newEnv(pl, out, keepLogFlag)
	var sess *expSession
	env.Go("app", func() {
		s, err := newExpSession(env)
		if err != nil {
			out.Trouble = "exporter init failed: " + err.Error()
			return
		}
		sess = s
		if cfgOr(pl, "sender2", 0) == 1 {
			s.startSecondSender()
		}
		// split ops at setseq so the oracle knows where the counter was moved
		s.appGIDInit()
		for i, op := range pl.Ops {
			s.runOps1(i, op)
		}
		if s.send2Ch != nil {
			// let the second sender finish what it was asked to do
			close(s.send2Ch)
			s.env.Sleep(10 * time.Second)
		}
		s.closeExporter()
	})
	res := env.Run()
	if res != "done" && out.Trouble == "" {
		env.runEnded(res, out)
	}
	if sess == nil {
		return
	}
	sess.checkBookkeeping()
	sess.seqCheck()
	ok := 0
	for _, c := range sess.calls {
		if c.Err == nil {
			ok++
		}
	}
	out.Add("c08.successful_sends", int64(ok))
	out.Add("c08.wire_messages", int64(len(sess.wire)))
	bg := 0
	for _, w := range sess.wire {
		if w.Call < 0 {
			bg++
		}
	}
	out.Add("c08.background_messages", int64(bg))
	out.Nontrivial = ok >= 3
	out.Sample = map[string]any{"calls": len(sess.calls), "ok": ok, "wire": len(sess.wire), "background": bg, "proto": sess.proto}
}
