package harness

import (
	"encoding/hex"
	"fmt"
	"math/rand/v2"
	"net"
	"sort"
	"time"

	"github.com/vmware/go-ipfix/pkg/collector"
	"github.com/vmware/go-ipfix/pkg/entities"
	"github.com/vmware/go-ipfix/pkg/verifsim/simnet"

	"verif/oracle/ipfixref"
	"verif/sim/plan"
)

// C04 — data is decoded with the right template: scoping, replacement, invalidation.
//
// Plan ops: {K:"msg", T:client, X:hex, S:kind}. The ops are the global order of the
// history (each client's own order is the order of its ops). Cfg: mode, path
// (0: decode hook, errors do not end a session - the UDP reading; 1: every client is a
// TCP connection to the real server, the first error ends that connection).

func init() {
	register(&Prop{
		ID: "C04", Gen: genC04, Run: runC04, Quick: 3000, Thorough: 600000,
		Real: []string{"pkg/collector template table (addTemplate, deleteTemplate, getTemplateIEs), decodeTemplateSet, decodeDataSet", "pkg/collector TCP server path (Start, accept loop, per-connection reader) for half of the runs", "pkg/entities, pkg/registry"},
		Stub: []string{"OS sockets (simnet)", "wall clock (synctest bubble)"},
		Rule: "histories of up to 40 template / replacing-template / bad-template / data messages from 2-4 clients over 2 observation domains x 3 template ids in a seeded global order; template-table model stepped in the same order; near-identical redefinitions; concurrent members (redefinition during a decode; withdrawal of a domain's last template, by one or two sessions, during a store); a real UDP server with an exactly fitting buffer; collector's table compared with the model after every message; non-trivial = at least one replacement or invalidation followed by data for that id; distinct = distinct event-log hash",
	})
}

func genC04(seed uint64, tier string) *plan.Plan {
	r := rand.New(rand.NewPCG(seed, 0xc04))
	pl := &plan.Plan{Cfg: map[string]int64{}}
	pl.Cfg["mode"] = int64(r.IntN(3))
	pl.Cfg["path"] = int64([]int{0, 1, 0, 1, 3}[r.IntN(5)])
	if r.IntN(5) == 0 {
		genC04Concurrent(r, pl)
		return pl
	}
	nClients := 2 + r.IntN(3)
	doms := []uint32{7, 8}
	if r.IntN(4) == 0 {
		doms = []uint32{0, 0xffffffff}
	}
	type cur struct{ t gTemplate }
	current := map[tkey]*gTemplate{} // generator's view (may be wrong after bad templates: the model decides)
	stale := map[tkey]*gTemplate{}
	type badMsg struct {
		b    []byte
		kind string
	}
	lastBad := map[tkey]badMsg{}
	n := 6 + r.IntN(24)
	if tier == "thorough" {
		n = 6 + r.IntN(34)
	}
	o := tmplOpts{unknown: pl.Cfg["mode"] != 0 && r.IntN(2) == 0, user: true, maxFields: 1 + r.IntN(5)}
	hdr := func() ipfixref.Header { return ipfixref.Header{ExportTime: r.Uint32(), Sequence: r.Uint32()} }
	add := func(client int, b []byte, kind string) {
		pl.Ops = append(pl.Ops, plan.Op{K: "msg", T: client, X: hex.EncodeToString(b), S: kind})
	}
	for i := 0; i < n; i++ {
		client := r.IntN(nClients)
		k := tkey{doms[r.IntN(2)], uint16(256 + r.IntN(3))}
		x := r.IntN(20)
		switch {
		case current[k] == nil && x < 12, x < 3:
			t := genTemplate(r, k.dom, k.id, o)
			for len(t.Fields) == 0 {
				t = genTemplate(r, k.dom, k.id, o)
			}
			kind := "template"
			if current[k] != nil {
				if nt, ok := nearVariant(r, *current[k], o); ok && r.IntN(2) == 0 {
					t, kind = nt, "template-near"
				}
				stale[k] = current[k]
			}
			current[k] = &t
			add(client, t.templateMsg(hdr()), kind)
		case x < 5: // bad template, fails after the id was read
			if lb, ok := lastBad[k]; ok && r.IntN(3) == 0 {
				// the same bad template record once more (an exporter that does not know better repeats
				// itself): it is as bad as the first time, and whatever was learned in between goes
				b := append([]byte(nil), lb.b...)
				h := hdr()
				b[4], b[5], b[6], b[7] = byte(h.ExportTime>>24), byte(h.ExportTime>>16), byte(h.ExportTime>>8), byte(h.ExportTime)
				b[8], b[9], b[10], b[11] = byte(h.Sequence>>24), byte(h.Sequence>>16), byte(h.Sequence>>8), byte(h.Sequence)
				if current[k] != nil {
					stale[k] = current[k]
				}
				delete(current, k)
				add(client, b, lb.kind+"-again")
				continue
			}
			t := genTemplate(r, k.dom, k.id, tmplOpts{maxFields: 3})
			var b []byte
			kind := "badtemplate-"
			switch r.IntN(3) {
			case 0: // field list cut short
				b = t.templateMsg(hdr())
				cut := 1 + r.IntN(3)
				if len(b)-cut >= 24 {
					b = b[:len(b)-cut]
				} else {
					b = b[:24]
					// make sure the count claims at least one field
					b[22], b[23] = 0, 1
				}
				// keep the message well framed: the header and set lengths say what is there
				b[2], b[3] = byte(len(b)>>8), byte(len(b))
				b[18], b[19] = byte((len(b)-16)>>8), byte(len(b)-16)
				kind += "cut"
			case 1: // element the library cannot handle (unknown in strict mode / unsupported type)
				if pl.Cfg["mode"] == 0 && r.IntN(2) == 0 {
					t.Fields = append(t.Fields, gField{F: ipfixref.Field{ID: 21000, Len: 4}, Width: 4})
					kind += "unknown"
				} else {
					t.Fields = append(t.Fields, gField{F: ipfixref.Field{ID: unsupportedIDs[r.IntN(len(unsupportedIDs))], Len: 65535}, Width: 65535})
					kind += "unsupported"
				}
				b = t.templateMsg(hdr())
			default: // field count larger than the body
				b = t.templateMsg(hdr())
				b[22], b[23] = 0xff, 0xff
				kind += "count"
			}
			if current[k] != nil {
				stale[k] = current[k]
			}
			delete(current, k)
			add(client, b, kind)
			lastBad[k] = badMsg{b, kind}
		case x < 7 && x >= 6 && current[k] != nil:
			// a template record with no fields for an id that has a template (RFC 7011 8.1 uses this
			// shape to withdraw a template): it is the most recent template now, and defines nothing
			t := gTemplate{Dom: k.dom, ID: k.id}
			stale[k] = current[k]
			delete(current, k)
			add(client, t.templateMsg(hdr()), "template-empty")
		case x == 7 && current[k] != nil:
			// A message that is not IPFIX (version 9, 0, 11) from some client: refused as a whole. What
			// its body looks like - here a template for an id in force, another layout or cut short -
			// is nobody's business: the table stays as it is.
			t := genTemplate(r, k.dom, k.id, tmplOpts{maxFields: 4})
			for len(t.Fields) == 0 {
				t = genTemplate(r, k.dom, k.id, tmplOpts{maxFields: 4})
			}
			b := t.templateMsg(hdr())
			if r.IntN(3) == 0 {
				b = b[:len(b)-2]
				b[2], b[3] = byte(len(b)>>8), byte(len(b))
				b[18], b[19] = byte((len(b)-16)>>8), byte(len(b)-16)
			}
			b[0], b[1] = 0, []byte{9, 0, 11, 5}[r.IntN(4)]
			add(client, b, "badversion-template")
		case x < 6: // bad template, fails before the id can be read
			b := ipfixref.EncodeMessage(ipfixref.Header{Domain: k.dom}, ipfixref.EncodeSet(2, []byte{1, 0}[:r.IntN(3)]))
			add(client, b, "badtemplate-noid")
		default: // data
			var t *gTemplate
			kind := "data"
			switch {
			case current[k] != nil && r.IntN(5) > 0:
				t = current[k]
			case stale[k] != nil:
				t = stale[k]
				kind = "data-stale"
			default:
				// data for an id that has no template in this domain: use another key's template shape
				var ks []tkey
				for ok := range current {
					ks = append(ks, ok)
				}
				sort.Slice(ks, func(a, b int) bool {
					return ks[a].dom < ks[b].dom || (ks[a].dom == ks[b].dom && ks[a].id < ks[b].id)
				})
				if len(ks) > 0 {
					t = current[ks[0]]
				}
				kind = "data-orphan"
			}
			if t == nil {
				tt := genTemplate(r, k.dom, k.id, tmplOpts{maxFields: 2})
				t = &tt
			}
			body := t.dataBody(r, 1+r.IntN(3), []int{0, 5, 300}[r.IntN(3)], false, false)
			tt := *t
			tt.Dom, tt.ID = k.dom, k.id
			add(client, tt.dataMsg(hdr(), body), kind)
		}
	}
	genSchedule(r, pl, 0, 0)
	return pl
}

func runC04(pl *plan.Plan, out *plan.Outcome) {
	if cfgOr(pl, "path", 0) == 2 {
		runC04Concurrent(pl, out)
		return
	}
	env := newEnv(pl, out, keepLogFlag)
	mode := int(cfgOr(pl, "mode", 0))
	tcp := cfgOr(pl, "path", 0) == 1
	// path 3: the real UDP server with a receive buffer that the longest message of the plan fits
	// exactly (a datagram that fills the buffer is a complete datagram)
	udpReal := cfgOr(pl, "path", 0) == 3
	addr := "10.0.0.1:4739"
	proto := "udp"
	if tcp {
		proto = "tcp"
	}
	maxBuf := 65535
	if udpReal {
		maxBuf = 16
		for _, op := range pl.Ops {
			if op.K == "msg" && len(op.X)/2 > maxBuf {
				maxBuf = len(op.X) / 2
			}
		}
		out.Add("c04.udp_buffer_fits_longest_message_exactly", 1)
	}
	cp, err := collector.InitCollectingProcess(collector.CollectorInput{Address: addr, Protocol: proto, MaxBufferSize: uint16(maxBuf), DecodingMode: modeNames[mode], TemplateTTL: 86400})
	if err != nil {
		out.Trouble = err.Error()
		return
	}
	model := newColModel(mode)
	var got []dMsg
	if tcp || udpReal {
		env.Go("collector", func() { cp.Start() })
	}
	env.Go("consumer", func() {
		for {
			var msg *entities.Message
			var ok bool
			Block("consume", func() { msg, ok = <-cp.GetMsgChan() })
			if !ok {
				return
			}
			got = append(got, captureMsg(msg))
		}
	})
	replaced := map[tkey]bool{}
	interesting := 0
	env.Go("driver", func() {
		env.Sleep(time.Millisecond)
		conns := map[int]*simnet.Conn{}
		uconns := map[int]*simnet.UDPConn{}
		dead := map[int]bool{}
		for i, op := range pl.Ops {
			if op.K != "msg" {
				continue
			}
			b, _ := hex.DecodeString(op.X)
			if tcp && dead[op.T] {
				out.Add("c04.skipped_on_closed_connection", 1)
				continue
			}
			var key tkey
			if len(b) >= 24 {
				h, _ := ipfixref.ParseHeader(b)
				key = tkey{h.Domain, uint16(b[20])<<8 | uint16(b[21])}
			}
			_, hadBefore := model.tmpls[key]
			exp := model.step(b)
			if _, hasNow := model.tmpls[key]; hadBefore && (exp.Kind == "template" || !hasNow) {
				replaced[key] = true
			}
			if exp.Kind != "template" && replaced[tkey{exp.Domain, exp.ID}] && len(b) >= 18 && (uint16(b[16])<<8|uint16(b[17])) != 2 {
				interesting++
			}
			n0 := len(got)
			var derr error
			if tcp {
				c := conns[op.T]
				if c == nil {
					var err error
					Block("dial", func() { c, err = env.Net.Dial("tcp", addr) })
					if err != nil {
						out.Trouble = "dial: " + err.Error()
						return
					}
					conns[op.T] = c
				}
				Block("write", func() { c.Write(b) })
				env.Sleep(time.Second)
				// the connection is closed by the collector after the first undecodable message
				if len(got) == n0 {
					derr = fmt.Errorf("no delivery")
					dead[op.T] = true
				}
			} else if udpReal {
				if len(b) == 0 {
					continue
				}
				c := uconns[op.T]
				if c == nil {
					var err error
					c, err = env.Net.DialUDP(&net.UDPAddr{IP: net.ParseIP("10.0.0.1"), Port: 4739})
					if err != nil {
						out.Trouble = "dial: " + err.Error()
						return
					}
					uconns[op.T] = c
				}
				Block("send", func() { c.Write(b) })
				env.Sleep(time.Second)
				if len(got) == n0 {
					derr = fmt.Errorf("no delivery")
				}
			} else {
				Block("decode", func() { _, derr = cp.VerifDecodePacket(b, fmt.Sprintf("10.0.1.%d:999", op.T+1)) })
				env.Sleep(time.Millisecond)
			}
			out.Add("c04.messages", 1)
			env.Logf("msg %d client %d %s -> delivered=%d err=%v exp=%s", i, op.T, op.S, len(got)-n0, derr != nil, exp.Kind)
			switch n := len(got) - n0; {
			case n > 1:
				env.Violate("extra-delivery", "", "message %d (%s) produced %d deliveries", i, op.S, n)
			case n == 1:
				d := got[n0]
				judgeC03(pl.Prop, out, mode, i, op.S, exp, &d)
				if d.Domain != exp.Header.Domain {
					env.Violate("domain", "", "message %d (%s): delivered with observation domain %d, wire has %d", i, op.S, d.Domain, exp.Header.Domain)
				}
			case n == 0 && exp.Kind != "error":
				env.Violate("rejected-decodable", exp.Kind, "message %d (%s, client %d): the model holds a valid template %d/%d and the set body decodes under it, but nothing was delivered (err=%v)", i, op.S, op.T, exp.Domain, exp.ID, derr)
			}
			if diff := tableDiff(cp, model); diff != "" {
				env.Violate("table", "", "after message %d (%s, client %d): %s", i, op.S, op.T, diff)
				break
			}
		}
		for _, c := range conns {
			c.Close()
		}
		for _, c := range uconns {
			c.Close()
		}
		if tcp || udpReal {
			Block("stop", func() { cp.Stop() })
		}
		cp.CloseMsgChan()
	})
	res := env.Run()
	if res != "done" && out.Trouble == "" {
		env.runEnded(res, out)
	}
	out.Add("c04.delivered", int64(len(got)))
	out.Add("probe.data_after_replacement_or_invalidation", int64(interesting))
	out.Nontrivial = interesting > 0
	out.Sample = map[string]any{"mode": mode, "tcp": tcp, "messages": len(pl.Ops), "delivered": len(got)}
}

// ---- path 2: a template is redefined while data sets for it are being decoded ------------------
//
// Task A decodes data sets of many records for one (domain, id); task B keeps re-sending the
// template, alternating between two versions whose fields have the same widths but are different
// elements. Under the controlled scheduler (with preemptions inside the decoder) every delivered
// data message must be entirely decoded with ONE version that was in force at some point during
// the call. Plan ops: {K:"tmplv", T:1, A:version}; {K:"datav", T:0, B:records, C:seed};
// Cfg c_w<i>: width class, c_a<i>/c_b<i>: catalogue indices of field i in version 0 / 1.

func genC04Concurrent(r *rand.Rand, pl *plan.Plan) {
	pl.Cfg["path"] = 2
	// group fixed-width catalogue elements by width
	byW := map[uint16][]int{}
	for i, sp := range catalog {
		if sp.Len != entities.VariableLength && sp.Len > 0 && sp.Len <= 16 {
			byW[sp.Len] = append(byW[sp.Len], i)
		}
	}
	widths := []uint16{1, 2, 4, 8, 16, 6}
	nf := 2 + r.IntN(4)
	pl.Cfg["c_fields"] = int64(nf)
	for i := 0; i < nf; i++ {
		w := widths[r.IntN(len(widths))]
		g := byW[w]
		a := g[r.IntN(len(g))]
		b := g[r.IntN(len(g))]
		for b == a {
			b = g[r.IntN(len(g))]
		}
		pl.Cfg[fmt.Sprintf("c_a%d", i)] = int64(a)
		pl.Cfg[fmt.Sprintf("c_b%d", i)] = int64(b)
	}
	if r.IntN(3) == 0 {
		// a domain whose only template is withdrawn by a malformed redefinition while another
		// template of the same domain is being stored (see runC04Orphan)
		pl.Cfg["c_orphan"] = int64(3 + r.IntN(6))
		pl.Cfg["c_orphan_first"] = int64(r.IntN(2))
		pl.Cfg["c_orphan_two"] = int64(r.IntN(2)) // a second session malforms X at the same time
		genSchedule(r, pl, 8, 3000)
		return
	}
	pl.Ops = append(pl.Ops, plan.Op{K: "tmplv", T: 1, A: 0})
	n := 4 + r.IntN(10)
	for i := 0; i < n; i++ {
		if r.IntN(2) == 0 {
			pl.Ops = append(pl.Ops, plan.Op{K: "tmplv", T: 1, A: int64(r.IntN(2))})
		} else {
			pl.Ops = append(pl.Ops, plan.Op{K: "datav", T: 0, B: int64(2 + r.IntN(30)), C: int64(r.Uint64() >> 1)})
		}
	}
	genSchedule(r, pl, 8, 3000)
}

func runC04Concurrent(pl *plan.Plan, out *plan.Outcome) {
	env := newEnv(pl, out, keepLogFlag)
	mode := int(cfgOr(pl, "mode", 0))
	cp, err := collector.InitCollectingProcess(collector.CollectorInput{Address: "10.0.0.1:4739", Protocol: "tcp", MaxBufferSize: 65535, DecodingMode: modeNames[mode]})
	if err != nil {
		out.Trouble = err.Error()
		return
	}
	if cfgOr(pl, "c_orphan", 0) > 0 {
		runC04Orphan(pl, out, env, cp, mode)
		return
	}
	nf := int(cfgOr(pl, "c_fields", 2))
	var vers [2]gTemplate
	for v := 0; v < 2; v++ {
		t := gTemplate{Dom: 7, ID: 256}
		for i := 0; i < nf; i++ {
			key := fmt.Sprintf("c_a%d", i)
			if v == 1 {
				key = fmt.Sprintf("c_b%d", i)
			}
			idx := int(cfgOr(pl, key, 0))
			if idx < 0 || idx >= len(catalog) {
				idx = 0
			}
			sp := catalog[idx]
			t.Fields = append(t.Fields, gField{F: sp.field(), Known: true, Spec: sp, Width: sp.Len})
		}
		vers[v] = t
	}
	fieldsOfV := func(v int) []mField {
		var fs []mField
		for _, f := range vers[v].Fields {
			fs = append(fs, mField{Ent: f.Spec.Ent, ID: f.Spec.ID, Known: true, Type: f.Spec.Type, Name: f.Spec.Name, Width: f.Spec.Len})
		}
		return fs
	}
	var stamp int64
	next := func() int64 { stamp++; return stamp } // tasks run one at a time under the scheduler
	type tmplEv struct {
		v         int
		call, ret int64
	}
	var tevs []tmplEv
	// gotTmpl[k]: when the consumer was handed the k-th template message (one task sends them, one
	// after the other, so the k-th delivered is the k-th sent). A template the consumer has been
	// handed is in force: the application behind the collector reads what follows with it.
	var gotTmpl []int64
	env.Go("consumer", func() {
		for {
			var ok bool
			var msg *entities.Message
			Block("consume", func() { msg, ok = <-cp.GetMsgChan() })
			if !ok {
				return
			}
			if msg != nil && msg.GetSet() != nil && msg.GetSet().GetSetType() == entities.Template {
				gotTmpl = append(gotTmpl, next())
			}
		}
	})
	// inForceBy: the stamp by which template event i had taken effect (0: not yet known to have)
	inForceBy := func(i int) int64 {
		b := tevs[i].ret
		if i < len(gotTmpl) && (b == 0 || gotTmpl[i] < b) {
			b = gotTmpl[i]
		}
		return b
	}
	done := make(chan struct{}, 2)
	hdr := ipfixref.Header{}
	mixes := 0
	env.Go("B", func() {
		defer func() { done <- struct{}{} }()
		for _, op := range pl.Ops {
			if op.K != "tmplv" {
				continue
			}
			v := int(op.A) & 1
			ev := tmplEv{v: v, call: next()}
			idx := len(tevs)
			tevs = append(tevs, ev)
			var derr error
			Block("decode", func() { _, derr = cp.VerifDecodePacket(vers[v].templateMsg(hdr), "10.0.1.2:999") })
			tevs[idx].ret = next()
			if derr != nil {
				env.Violate("rejected-decodable", "template", "valid template (version %d) rejected: %v", v, derr)
			}
		}
	})
	env.Go("A", func() {
		defer func() { done <- struct{}{} }()
		for i, op := range pl.Ops {
			if op.K != "datav" {
				continue
			}
			r := rand.New(rand.NewPCG(uint64(op.C), 0xc04c))
			body := vers[0].dataBody(r, int(op.B), 0, false, false)
			msgb := vers[0].dataMsg(hdr, body)
			call := next()
			var msg *entities.Message
			var derr error
			Block("decode", func() { msg, derr = cp.VerifDecodePacket(msgb, "10.0.1.1:999") })
			ret := next()
			env.Count("c04.concurrent_data_decodes", 1)
			if derr != nil || msg == nil {
				// Acceptable only while no template has been stored yet. Once a template message of the
				// other task has returned, there is a valid template for this (domain, id) at every
				// instant (that task only ever re-sends valid ones, of the same widths): the data set
				// has a template and decodes under it, whichever version.
				for ei := range tevs {
					if b := inForceBy(ei); b != 0 && b < call {
						env.Violate("rejected-decodable", "concurrent", "op %d: a data set was refused (%v) although a valid template for its (domain, id) had been accepted before the call began and templates were only ever replaced by valid ones since", i, derr)
						break
					}
				}
				continue
			}
			d := captureMsg(msg)
			// versions that were in force at some point during [call, ret]
			acc := map[int]bool{}
			last := -1
			for ei, ev := range tevs {
				b := inForceBy(ei)
				if b != 0 && b < call {
					last = ev.v
				}
				if ev.call <= ret && (b == 0 || b >= call) {
					acc[ev.v] = true
					mixes++
				}
			}
			if last >= 0 {
				acc[last] = true
			}
			okAny := false
			var why string
			for v := range acc {
				recs, _, rerr := ipfixref.DecodeRecords(body, (&colModel{}).refFields(fieldsOfV(v)))
				if rerr != nil {
					continue
				}
				if m := matchData(mode, fieldsOfV(v), recs, d); m == "" {
					okAny = true
				} else if why == "" {
					why = m
				}
			}
			if !okAny {
				env.Violate("mixed-templates", "", "op %d: a data set of %d records was delivered, but it is not the decode of the set under any single template version in force during the call (%v): %s", i, len(d.Records), acc, why)
			}
		}
	})
	env.Go("driver", func() {
		Block("join", func() { <-done })
		Block("join", func() { <-done })
		cp.CloseMsgChan()
	})
	if res := env.Run(); res != "done" && out.Trouble == "" {
		env.runEnded(res, out)
	}
	out.Add("probe.data_decode_overlapping_template_change", int64(mixes))
	out.Nontrivial = mixes > 0
	out.Sample = map[string]any{"path": "concurrent redefinition", "fields": nf, "ops": len(pl.Ops)}
}

// runC04Orphan: per round a fresh observation domain d. Task C announces template X(d) and then sends a
// malformed template set for X's id, which withdraws X - possibly the domain's last template. Task B
// meanwhile announces template Y(d), another id, and afterwards sends data for Y. Nothing ever
// invalidates Y: once its announcement has returned without error, its data has a template.
func runC04Orphan(pl *plan.Plan, out *plan.Outcome, env *Env, cp *collector.CollectingProcess, mode int) {
	rounds := int(cfgOr(pl, "c_orphan", 3))
	if rounds > 16 {
		rounds = 16
	}
	xFirst := cfgOr(pl, "c_orphan_first", 0) == 1
	mkT := func(dom uint32, id uint16, key string) gTemplate {
		t := gTemplate{Dom: dom, ID: id}
		for i := 0; i < int(cfgOr(pl, "c_fields", 2)); i++ {
			idx := int(cfgOr(pl, fmt.Sprintf("%s%d", key, i), 0))
			if idx < 0 || idx >= len(catalog) {
				idx = 0
			}
			sp := catalog[idx]
			t.Fields = append(t.Fields, gField{F: sp.field(), Known: true, Spec: sp, Width: sp.Len})
		}
		return t
	}
	env.Go("consumer", func() {
		for {
			var ok bool
			Block("consume", func() { _, ok = <-cp.GetMsgChan() })
			if !ok {
				return
			}
		}
	})
	startB := make([]chan struct{}, rounds)
	startC := make([]chan struct{}, rounds)
	for i := range startB {
		startB[i], startC[i] = make(chan struct{}), make(chan struct{})
	}
	done := make(chan struct{}, 3*rounds)
	hdr := ipfixref.Header{}
	overlaps := 0
	two := cfgOr(pl, "c_orphan_two", 0) == 1
	startD := make([]chan struct{}, rounds)
	for i := range startD {
		startD[i] = make(chan struct{})
	}
	if two {
		// another session of the same domain sends its own malformed redefinition of X: two
		// withdrawals of one template at once (whichever comes second finds nothing to withdraw)
		env.Go("D", func() {
			for k := 0; k < rounds; k++ {
				Block("round", func() { <-startD[k] })
				bad := mkT(uint32(100+k), 256, "c_a").templateMsg(hdr)
				bad = bad[:len(bad)-2]
				bad[2], bad[3] = byte(len(bad)>>8), byte(len(bad))
				bad[18], bad[19] = byte((len(bad)-16)>>8), byte(len(bad)-16)
				Block("decode", func() { cp.VerifDecodePacket(bad, "10.0.1.4:999") })
				done <- struct{}{}
			}
		})
	}
	inB, inC := false, false
	env.Go("C", func() {
		for k := 0; k < rounds; k++ {
			Block("round", func() { <-startC[k] })
			x := mkT(uint32(100+k), 256, "c_a")
			if !xFirst {
				inC = true
				Block("decode", func() { cp.VerifDecodePacket(x.templateMsg(hdr), "10.0.1.3:999") })
				inC = false
			}
			bad := x.templateMsg(hdr)
			bad[22], bad[23] = 0xff, 0xff // field count larger than the body: fails after the id was read
			inC = true
			if inB {
				overlaps++
			}
			Block("decode", func() { cp.VerifDecodePacket(bad, "10.0.1.3:999") })
			inC = false
			done <- struct{}{}
		}
	})
	env.Go("B", func() {
		for k := 0; k < rounds; k++ {
			Block("round", func() { <-startB[k] })
			y := mkT(uint32(100+k), 257, "c_b")
			var derr error
			inB = true
			if inC {
				overlaps++
			}
			Block("decode", func() { _, derr = cp.VerifDecodePacket(y.templateMsg(hdr), "10.0.1.2:999") })
			inB = false
			if derr != nil {
				env.Violate("rejected-decodable", "template", "round %d: valid template rejected: %v", k, derr)
				done <- struct{}{}
				continue
			}
			r := rand.New(rand.NewPCG(uint64(k), 0xc04d))
			body := y.dataBody(r, 1+r.IntN(4), 0, false, false)
			var msg *entities.Message
			Block("decode", func() { msg, derr = cp.VerifDecodePacket(y.dataMsg(hdr, body), "10.0.1.2:999") })
			env.Count("c04.concurrent_data_decodes", 1)
			if derr != nil || msg == nil {
				env.Violate("rejected-decodable", "concurrent", "round %d: a data set was refused (%v) although the template for its (domain, id) had been accepted by the preceding call on the same connection and was never redefined; only another template id of that domain was withdrawn meanwhile", k, derr)
			} else {
				var fs []mField
				for _, f := range y.Fields {
					fs = append(fs, mField{Ent: f.Spec.Ent, ID: f.Spec.ID, Known: true, Type: f.Spec.Type, Name: f.Spec.Name, Width: f.Spec.Len})
				}
				if recs, _, rerr := ipfixref.DecodeRecords(body, (&colModel{}).refFields(fs)); rerr == nil {
					if m := matchData(mode, fs, recs, captureMsg(msg)); m != "" {
						env.Violate("mixed-templates", "", "round %d: delivered data set is not the decode under its template: %s", k, m)
					}
				}
			}
			done <- struct{}{}
		}
	})
	env.Go("driver", func() {
		for k := 0; k < rounds; k++ {
			if xFirst {
				// X is in the table before the round's two tasks start
				x := mkT(uint32(100+k), 256, "c_a")
				Block("decode", func() { cp.VerifDecodePacket(x.templateMsg(hdr), "10.0.1.3:999") })
			}
			close(startB[k])
			close(startC[k])
			close(startD[k])
			Block("join", func() { <-done })
			Block("join", func() { <-done })
			if two {
				Block("join", func() { <-done })
			}
		}
		cp.CloseMsgChan()
	})
	if res := env.Run(); res != "done" && out.Trouble == "" {
		env.runEnded(res, out)
	}
	out.Add("probe.template_store_overlapping_withdrawal", int64(overlaps))
	out.Nontrivial = overlaps > 0
	out.Sample = map[string]any{"path": "withdrawal of a domain's last template during a store", "rounds": rounds}
}
