package harness

import (
	"fmt"
	"math/rand/v2"
	"sort"
	"strings"
	"sync"
	"sync/atomic"
	"time"

	"github.com/anishathalye/porcupine"

	"github.com/vmware/go-ipfix/pkg/entities"
	"github.com/vmware/go-ipfix/pkg/intermediate"

	"verif/sim/plan"
)

// C13 — the aggregation process is thread-safe: linearizable, no lost updates.
//
// Several tasks operate on one AggregationProcess under the controlled scheduler
// (sim layer: baton scheduling with preemptions inside library methods) or as real
// goroutines under the race detector (race layer). Every operation is recorded
// with invoke/return stamps from a global event counter and the history is
// checked by porcupine against aggModel as the sequential specification.
//
// Plan ops: {K:"phase", A:advance ns} starts a new concurrent phase; other ops carry
// T=task: rec (as in aggsession.go), scan (B=1 reset in callback), get (A=key), num, expiry.
// Cfg as in aggsession.go plus tasks, pool (1: records of the last phase go through the
// built-in worker pool and only the final state is compared).

func init() {
	register(&Prop{
		ID: "C13", HangIsViolation: true, Gen: genC13, GenRace: genC13, Run: runC13, Quick: 2500, Thorough: 300000, RaceQuick: 250, RaceThorough: 12000,
		Real: []string{"pkg/intermediate AggregationProcess: AggregateMsgByFlowKey, ForAllExpiredFlowRecordsDo, GetRecords, GetNumFlows, GetExpiryFromExpirePriorityQueue, Start/Stop worker pool", "pkg/entities records"},
		Stub: []string{"wall clock (synctest bubble)", "goroutine scheduling (sim layer: seeded baton scheduler with preemptions at instrumented statements; race layer: Go scheduler with seeded Gosched perturbation)"},
		Rule: "2-4 tasks issue up to 14 operations per concurrent phase (ingest on 2-3 keys with per-node streams owned by one task each, expiry scans, GetRecords, GetNumFlows, GetExpiry...) in 1-3 phases separated by clock advances; the invoke/return history is checked for linearizability against the sequential model with porcupine; non-trivial = at least 2 tasks with overlapping operations on a shared key; distinct = distinct event-log hash (sim layer) or plan seed (race layer)",
	})
}

type c13Input struct {
	Kind  string
	Rec   aggRec
	Key   int
	Reset bool
	Now   time.Time
	// getall: -1 no filter (nil key), -2 protocol-only filter (matches every flow of the plans),
	// k >= 0 source-address-only filter of key k (matches that flow only)
	Filter int
}

type c13Call struct {
	Key  int
	Snap map[string]string
}

type c13Output struct {
	Err     string
	Calls   []c13Call
	Present bool
	Snap    map[string]string
	Num     int
	Dur     time.Duration
	All     []c13Call // getall: one entry per returned record, sorted by key (-1: not a key of the plan)
}

type c13State struct {
	m   *aggModel
	min time.Duration
}

func (s c13State) key() string {
	var ks []int
	for k := range s.m.Flows {
		ks = append(ks, k)
	}
	sort.Ints(ks)
	var b strings.Builder
	for _, k := range ks {
		f := s.m.Flows[k]
		fmt.Fprintf(&b, "%d:%d:%v:%v:%d:%v:%v:%v:%v:%v:%v|", k, f.End, f.N, f.Tot, f.Retries, f.Ready, f.Active.UnixNano(), f.Inactive.UnixNano(), f.Dlt, f.Thr, f.TCP)
	}
	return b.String()
}

func c13Model(active, inactive time.Duration, maxRetries int, minExpiry time.Duration) porcupine.Model {
	return porcupine.Model{
		Init: func() interface{} { return c13State{m: newAggModel(active, inactive, maxRetries), min: minExpiry} },
		Equal: func(a, b interface{}) bool {
			return a.(c13State).key() == b.(c13State).key()
		},
		Step: func(state, input, output interface{}) (bool, interface{}) {
			st := state.(c13State)
			in := input.(c13Input)
			out := output.(c13Output)
			m := st.m.clone()
			ns := c13State{m: m, min: st.min}
			switch in.Kind {
			case "rec":
				if out.Err != "" {
					return false, ns
				}
				if !m.ingest(in.Rec, in.Now) {
					return false, ns // plans keep every record inside the contract
				}
				return true, ns
			case "num":
				return out.Num == len(m.Flows), ns
			case "recbad":
				// refused, and nothing of it stays behind
				return out.Err != "", ns
			case "resetall":
				if out.Err != "" {
					return false, ns
				}
				for _, k := range m.sortedKeys() {
					m.reset(k)
				}
				return true, ns
			case "get":
				f := m.Flows[in.Key]
				if (f != nil) != out.Present {
					return false, ns
				}
				if f == nil {
					return true, ns
				}
				return snapDiff(expectedSnap(f), out.Snap) == "", ns
			case "getall":
				want := map[int]bool{}
				for k := range m.Flows {
					if in.Filter < 0 || in.Filter == k {
						want[k] = true
					}
				}
				if len(out.All) != len(want) {
					return false, ns
				}
				for _, c := range out.All {
					if !want[c.Key] {
						return false, ns
					}
					delete(want, c.Key)
					if snapDiff(expectedSnap(m.Flows[c.Key]), c.Snap) != "" {
						return false, ns
					}
				}
				return true, ns
			case "expiry":
				next, ok := m.nextExpiry()
				var want time.Duration
				if ok {
					want = st.min + next.Sub(in.Now)
					if want < 0 {
						want = st.min
					}
				} else {
					want = m.Active
					if m.Inactive < want {
						want = m.Inactive
					}
				}
				return out.Dur == want, ns
			case "scan":
				if out.Err != "" {
					return false, ns
				}
				strict, exact := m.dueKeys(in.Now)
				if len(exact) > 0 {
					return false, ns // plans avoid exact-deadline scans
				}
				// ready flows due, earliest first; not-ready flows are retried / dropped silently
				due := map[int]bool{}
				for _, k := range strict {
					if m.Flows[k].Ready {
						due[k] = true
					}
				}
				if len(out.Calls) != len(due) {
					return false, ns
				}
				var prev time.Time
				seen := map[int]bool{}
				for i, c := range out.Calls {
					f := m.Flows[c.Key]
					if f == nil || !due[c.Key] || seen[c.Key] {
						return false, ns
					}
					seen[c.Key] = true
					if i > 0 && f.minDeadline().Before(prev) {
						return false, ns
					}
					prev = f.minDeadline()
					if snapDiff(expectedSnap(f), c.Snap) != "" {
						return false, ns
					}
				}
				for _, k := range strict {
					f := m.Flows[k]
					if !f.Ready {
						f.Retries++
						if f.Retries > m.MaxRetries {
							delete(m.Flows, k)
						} else {
							f.Active, f.Inactive = in.Now.Add(m.Active), in.Now.Add(m.Inactive)
						}
						continue
					}
					switch {
					case !f.Inactive.After(in.Now):
						delete(m.Flows, k)
					case !f.Active.After(in.Now):
						f.Active = in.Now.Add(m.Active)
					}
					if in.Reset {
						if _, ok := m.Flows[k]; ok {
							m.reset(k)
						}
					}
				}
				return true, ns
			}
			return false, ns
		},
		DescribeOperation: func(input, output interface{}) string {
			in := input.(c13Input)
			out := output.(c13Output)
			switch in.Kind {
			case "rec":
				return fmt.Sprintf("rec(key=%d node=%d end=%d d=%v)", in.Rec.Key, in.Rec.Node, in.Rec.End, in.Rec.Delta)
			case "scan":
				var ks []int
				for _, c := range out.Calls {
					ks = append(ks, c.Key)
				}
				return fmt.Sprintf("scan(reset=%v)->%v", in.Reset, ks)
			case "get":
				return fmt.Sprintf("get(%d)->present=%v end=%s", in.Key, out.Present, out.Snap["flowEndSeconds"])
			case "num":
				return fmt.Sprintf("num->%d", out.Num)
			case "recbad":
				return fmt.Sprintf("recbad(key=%d)->err=%v", in.Rec.Key, out.Err != "")
			case "resetall":
				return "resetall"
			case "getall":
				var ks []int
				for _, c := range out.All {
					ks = append(ks, c.Key)
				}
				return fmt.Sprintf("getall(filter=%d)->%v", in.Filter, ks)
			}
			return fmt.Sprintf("expiry->%v", out.Dur)
		},
	}
}

func genC13(seed uint64, tier string) *plan.Plan {
	r := rand.New(rand.NewPCG(seed, 0xc13))
	pl := &plan.Plan{Cfg: map[string]int64{}}
	if r.IntN(10) == 0 {
		// Burst member: many flows expire in one scan while another goroutine ingests records for
		// them. No linearizability search (too many keys): conservation - every delta that was
		// ingested is exported exactly once - and the held-iff-scheduled bijection.
		pl.Cfg["burst"] = 1
		pl.Cfg["keys"] = int64(20 + r.IntN(130))
		pl.Cfg["workers"] = []int64{1, 2, 3}[r.IntN(3)]
		pl.Cfg["active_ms"], pl.Cfg["inactive_ms"] = 600000, 150
		pl.Cfg["max_steps"] = 20_000_000
		pl.Cfg["max_syncs"] = 2_000_000
		pl.Cfg["burst_seed"] = int64(r.Uint64() >> 1)
		pl.Cfg["burst_second_pct"] = int64(10 + r.IntN(90))
		pl.Cfg["burst_scanners"] = int64(1 + r.IntN(2))
		pl.Cfg["burst_ingesters"] = int64(1 + r.IntN(4))
		genSchedule(r, pl, 8, 60000)
		return pl
	}
	nk := 2 + r.IntN(2)
	nt := 2 + r.IntN(3)
	// one more 5-tuple than the tasks send valid records for: it only ever sees records that have to
	// be refused (an element missing), so no flow may ever exist for it
	pl.Cfg["keys"], pl.Cfg["tasks"] = int64(nk+1), int64(nt)
	pl.Cfg["workers"] = []int64{1, 1, 2, 3}[r.IntN(4)] // the configured pool size says nothing about who else calls in
	keymode := r.IntN(4) == 0
	if keymode {
		pl.Cfg["keymode"] = 1 // 5-tuples that differ in a port only, protocols other than TCP
	}
	pl.Cfg[fmt.Sprintf("cat%d", nk)] = int64(catIntra)
	pl.Cfg[fmt.Sprintf("v6%d", nk)] = int64(r.IntN(2))
	// timeouts are not multiples of 7 ms and every clock advance is: no scan lands exactly on a deadline
	activeMs := []int64{100, 1000, 5000}[r.IntN(3)]
	inactiveMs := []int64{150, 3000, 9000}[r.IntN(3)]
	pl.Cfg["active_ms"], pl.Cfg["inactive_ms"] = activeMs, inactiveMs
	pl.Cfg["max_retries"] = int64(r.IntN(3))
	pl.Cfg["min_expiry_ms"] = []int64{0, 100}[r.IntN(2)]
	type kst struct {
		cat     int
		start   uint32
		lastEnd [2]uint32
		rates   [4]uint64
		owner   [2]int // task that owns the node's stream
	}
	ks := make([]*kst, nk)
	for k := range ks {
		cat := []int{catInter, catInter, catIntra, catToExternal, catInterIngDrop, catEgressDeny}[r.IntN(6)]
		pl.Cfg[fmt.Sprintf("cat%d", k)] = int64(cat)
		pl.Cfg[fmt.Sprintf("v6%d", k)] = int64(r.IntN(2))
		if keymode && k%2 == 1 {
			pl.Cfg[fmt.Sprintf("v6%d", k)] = pl.Cfg[fmt.Sprintf("v6%d", k-1)]
		}
		s := &kst{cat: cat, start: uint32(10 + r.IntN(100))}
		for i := range s.rates {
			s.rates[i] = []uint64{1, 7, 1000, 999983}[r.IntN(4)]
		}
		s.owner = [2]int{r.IntN(nt), r.IntN(nt)}
		if !catNeedsCorrelation(cat) {
			s.owner[1] = s.owner[0]
		}
		s.lastEnd = [2]uint32{s.start, s.start}
		ks[k] = s
	}
	phases := 1 + r.IntN(3)
	val := int64(1)
	for p := 0; p < phases; p++ {
		adv := int64(0)
		if p > 0 {
			adv = int64(7*(1+r.IntN(1500))) * int64(time.Millisecond)
		}
		pl.Ops = append(pl.Ops, plan.Op{K: "phase", A: adv})
		nops := 4 + r.IntN(11)
		for i := 0; i < nops; i++ {
			t := r.IntN(nt)
			switch x := r.IntN(20); {
			case x < 11:
				// a record of a stream this task owns
				var cands [][2]int
				for k, s := range ks {
					for n := 0; n < 2; n++ {
						if s.owner[n] == t && (n == 0 || catNeedsCorrelation(s.cat)) {
							cands = append(cands, [2]int{k, n})
						}
					}
				}
				if len(cands) == 0 {
					pl.Ops = append(pl.Ops, plan.Op{K: "num", T: t})
					continue
				}
				c := cands[r.IntN(len(cands))]
				s := ks[c[0]]
				node := c[1]
				// odd end times for the source node, even for the destination node: no ties between nodes
				end := s.lastEnd[node] + uint32(1+r.IntN(6))
				if catNeedsCorrelation(s.cat) {
					for int(end)%2 != 1-node {
						end++
					}
				}
				s.lastEnd[node] = end
				dt := uint64(end - s.start)
				val++
				b := int64(node)
				if !catNeedsCorrelation(s.cat) {
					b = nodeSingle
				}
				pl.Ops = append(pl.Ops, plan.Op{K: "rec", T: t, A: int64(c[0]), B: b, S: fmt.Sprintf("S%d", val), D: int64(r.IntN(1 << 16)),
					N: []int64{int64(s.start), int64(end), int64(s.rates[0] * dt), int64(s.rates[1] * dt), int64(s.rates[2] * dt), int64(s.rates[3] * dt), val * 1000003 % 65521, val}})
			case x < 14:
				pl.Ops = append(pl.Ops, plan.Op{K: "scan", T: t, B: int64(r.IntN(2))})
			case x < 15:
				pl.Ops = append(pl.Ops, plan.Op{K: "get", T: t, A: int64(r.IntN(nk))})
			case x < 16:
				val++
				pl.Ops = append(pl.Ops, plan.Op{K: "recbad", T: t, A: int64(nk), B: nodeSingle, S: fmt.Sprintf("S%d", val), X: aggOmittable[r.IntN(len(aggOmittable))],
					N: []int64{10, int64(20 + val), 100, 200, 300, 400, 5, 6}})
			case x < 17:
				// list query: no key, or a partial key
				f := int64(r.IntN(nk+2) - 2)
				if keymode {
					f = -1 // partial keys select by address / protocol, which pairs share
				}
				pl.Ops = append(pl.Ops, plan.Op{K: "getall", T: t, A: f})
			case x < 18:
				pl.Ops = append(pl.Ops, plan.Op{K: "num", T: t})
			case x < 19:
				// walk over all records with a callback that resets each of them
				pl.Ops = append(pl.Ops, plan.Op{K: "resetall", T: t})
			default:
				pl.Ops = append(pl.Ops, plan.Op{K: "expiry", T: t})
			}
		}
	}
	if r.IntN(4) == 0 {
		pl.Cfg["pool"] = 1
	}
	genSchedule(r, pl, 8, 2500)
	return pl
}

// runC13Burst: see genC13.
func runC13Burst(pl *plan.Plan, out *plan.Outcome) {
	env := newEnv(pl, out, keepLogFlag)
	nk := int(cfgOr(pl, "keys", 70))
	r := rand.New(rand.NewPCG(uint64(cfgOr(pl, "burst_seed", 1)), 0xb0057))
	ingested := make([]uint64, nk)
	exported := make([]uint64, nk)
	exports := 0
	var sess *aggSession
	mkRec := func(k int, end uint32, d uint64) aggRec {
		return aggRec{Key: k, Node: nodeSingle, Cat: catIntra, Start: 10, End: end, Tot: [4]uint64{uint64(end) * 3, uint64(end) * 100, uint64(end), uint64(end) * 50},
			Delta: [2]uint64{d, d / 2}, TCPState: "E", Corr: corrValues(k, nodeSingle, catIntra, false, int64(k))}
	}
	keyIndex := map[intermediate.FlowKey]int{}
	scan := func() error {
		return sess.ap.ForAllExpiredFlowRecordsDo(func(key intermediate.FlowKey, rec *intermediate.AggregationFlowRecord) error {
			k, ok := keyIndex[key]
			if !ok {
				env.Violate("exported-unknown-flow", "", "the expiry callback was given %v, which no record was ever ingested for", key)
				return nil
			}
			v, _ := fieldStr(rec.Record, "packetDeltaCount")
			var d uint64
			fmt.Sscan(v, &d)
			exported[k] += d
			exports++
			sess.ap.ResetStatAndThroughputElementsInRecord(rec.Record)
			return nil
		})
	}
	env.Go("driver", func() {
		s, err := newAggSession(env, "C13")
		if err != nil {
			out.Trouble = err.Error()
			return
		}
		sess = s
		for k := 0; k < nk; k++ {
			keyIndex[aggKeyOf(k, false)] = k
			d := uint64(1 + r.IntN(1000))
			if err := s.ap.AggregateMsgByFlowKey(s.buildMessage(mkRec(k, 20, d), false)); err != nil {
				out.Trouble = "ingest: " + err.Error()
				return
			}
			ingested[k] += d
		}
		env.Sleep(time.Duration(cfgOr(pl, "inactive_ms", 150))*time.Millisecond + time.Millisecond)
		// concurrent phase: scanners and an ingester
		var second []int
		for k := 0; k < nk; k++ {
			if int64(r.IntN(100)) < cfgOr(pl, "burst_second_pct", 50) {
				second = append(second, k)
			}
		}
		r.Shuffle(len(second), func(a, b int) { second[a], second[b] = second[b], second[a] })
		d2 := make([]uint64, len(second))
		for i := range d2 {
			d2[i] = uint64(1 + r.IntN(1000))
		}
		nsc := int(cfgOr(pl, "burst_scanners", 1))
		ning := int(cfgOr(pl, "burst_ingesters", 1))
		done := make(chan struct{}, nsc+ning)
		for i := 0; i < nsc; i++ {
			env.Go(fmt.Sprintf("scanner%d", i), func() {
				defer func() { done <- struct{}{} }()
				if err := scan(); err != nil {
					env.Violate("scan-error", "", "ForAllExpiredFlowRecordsDo returned %v", err)
				}
			})
		}
		for g := 0; g < ning; g++ {
			g := g
			env.Go(fmt.Sprintf("ingester%d", g), func() {
				defer func() { done <- struct{}{} }()
				for i, k := range second {
					if i%ning != g {
						continue
					}
					if err := s.ap.AggregateMsgByFlowKey(s.buildMessage(mkRec(k, 30, d2[i]), false)); err != nil {
						env.Violate("ingest-error", "", "AggregateMsgByFlowKey returned %v", err)
						return
					}
					ingested[k] += d2[i]
					env.Count("agg.records", 1)
				}
			})
		}
		for i := 0; i < nsc+ning; i++ {
			Block("join", func() { <-done })
		}
		// drain: everything that is still held expires (inactive) within a few rounds
		for round := 0; round < 6 && s.ap.GetNumFlows() > 0; round++ {
			env.Sleep(time.Duration(cfgOr(pl, "inactive_ms", 150))*time.Millisecond + time.Millisecond)
			if err := scan(); err != nil {
				env.Violate("scan-error", "", "ForAllExpiredFlowRecordsDo returned %v", err)
				break
			}
		}
	})
	res := env.Run()
	if res == "stuck" && sess != nil {
		env.Violate("operation-never-returns", "", "the burst run did not finish: every task is blocked and no timer is pending")
		return
	}
	if res != "done" && out.Trouble == "" {
		env.runEnded(res, out)
		return
	}
	if sess == nil || out.Trouble != "" {
		return
	}
	for k := 0; k < nk; k++ {
		if exported[k] != ingested[k] {
			env.Violate("delta-not-conserved", "", "flow %d of %d: records with packetDeltaCount summing to %d were ingested, the expiry callbacks (which reset the record each time) were handed %d in total", k, nk, ingested[k], exported[k])
			break
		}
	}
	heapItems, mapItems := sess.ap.VerifSnapshot()
	if len(heapItems) != 0 || len(mapItems) != 0 {
		env.Violate("held-iff-scheduled", "burst", "after every flow had been idle for several inactive timeouts and scanned, %d flows are still held and %d entries scheduled", len(mapItems), len(heapItems))
	}
	out.Add("c13.burst_runs", 1)
	out.Add("c13.burst_exports", int64(exports))
	out.Add("c13.burst_keys", int64(nk))
	if exports >= 64 {
		out.Add("probe.scan_exported_64_or_more_flows", 1)
	}
	out.Nontrivial = exports > nk/2
	if out.Hash == "" {
		out.Hash = fmt.Sprintf("seed-%d", pl.Seed)
	}
	out.Sample = map[string]any{"burst": true, "keys": nk, "exports": exports}
}

func runC13(pl *plan.Plan, out *plan.Outcome) {
	if cfgOr(pl, "burst", 0) == 1 {
		runC13Burst(pl, out)
		return
	}
	env := newEnv(pl, out, keepLogFlag)
	nt := int(cfgOr(pl, "tasks", 2))
	var stamp atomic.Int64
	var hmu sync.Mutex
	var history []porcupine.Operation
	var sess *aggSession
	exported := map[string]int{} // "key@deadline" -> count
	overlapShared := 0
	record := func(client int, in c13Input, call int64, o c13Output) {
		ret := stamp.Add(1)
		hmu.Lock()
		history = append(history, porcupine.Operation{ClientId: client, Input: in, Call: call, Output: o, Return: ret})
		hmu.Unlock()
	}
	// Results of queries are kept and read again later: what a query returned describes the state at
	// its linearization point and must not change when later operations are applied (a result that
	// shares storage with the live record is a torn read in waiting, and a data race in the race layer).
	type heldRes struct {
		m    map[string]interface{}
		snap string
		desc string
	}
	held := make([][]heldRes, nt)
	renderAll := func(m map[string]interface{}) string {
		ks := make([]string, 0, len(m))
		for k := range m {
			ks = append(ks, k)
		}
		sort.Strings(ks)
		var b strings.Builder
		for _, k := range ks {
			v, _ := mapStr(m, k)
			b.WriteString(k + "=" + v + ";")
		}
		return b.String()
	}
	hold := func(t int, m map[string]interface{}, desc string) {
		held[t%nt] = append(held[t%nt], heldRes{m, renderAll(m), desc})
	}
	recheck := func(t int) {
		for _, h := range held[t%nt] {
			if now := renderAll(h.m); now != h.snap {
				env.Violate("query-result-changed-after-return", "", "%s: the returned record read %q when the query returned and reads %q now", h.desc, firstDiff(h.snap, now), firstDiff(now, h.snap))
				return
			}
		}
	}
	doOp := func(t int, op plan.Op) {
		defer recheck(t)
		s := sess
		now := time.Now()
		call := stamp.Add(1)
		switch op.K {
		case "rec":
			r := s.recOf(op)
			msg := s.buildMessage(r, s.keyV6[r.Key])
			err := s.ap.AggregateMsgByFlowKey(msg)
			o := c13Output{}
			if err != nil {
				o.Err = err.Error()
			}
			env.Count("agg.records", 1)
			record(t, c13Input{Kind: "rec", Rec: r, Now: now}, call, o)
		case "resetall":
			err := s.ap.ForAllRecordsDo(func(key intermediate.FlowKey, rec *intermediate.AggregationFlowRecord) error {
				return s.ap.ResetStatAndThroughputElementsInRecord(rec.Record)
			})
			o := c13Output{}
			if err != nil {
				o.Err = err.Error()
			}
			env.Count("agg.reset_walks", 1)
			record(t, c13Input{Kind: "resetall", Now: now}, call, o)
		case "recbad":
			r := s.recOf(op)
			if r.Key != len(s.keyCat)-1 || op.X == "" {
				return // only ever for the 5-tuple that is reserved for it
			}
			err := s.ap.AggregateMsgByFlowKey(s.buildMessageN([]aggRec{r}, []bool{s.keyV6[r.Key]}, op.X))
			o := c13Output{}
			if err != nil {
				o.Err = err.Error()
			}
			env.Count("fault.record_missing_element", 1)
			record(t, c13Input{Kind: "recbad", Rec: r, Now: now}, call, o)
		case "scan":
			var calls []c13Call
			reset := op.B == 1
			err := s.ap.ForAllExpiredFlowRecordsDo(func(key intermediate.FlowKey, rec *intermediate.AggregationFlowRecord) error {
				k := -1
				for i := range s.keyCat {
					if aggKeyOf(i, s.keyV6[i]) == key {
						k = i
					}
				}
				calls = append(calls, c13Call{Key: k, Snap: takeSnap(func(n string) (string, bool) { return fieldStr(rec.Record, n) })})
				if !rec.ReadyToSend {
					env.Violate("exported-not-ready", "", "key %d handed to the expiry callback while not ready to send", k)
				}
				if reset {
					s.ap.ResetStatAndThroughputElementsInRecord(rec.Record)
				}
				return nil
			})
			o := c13Output{Calls: calls}
			if err != nil {
				o.Err = err.Error()
			}
			env.Count("agg.scans", 1)
			env.Count("agg.exports", int64(len(calls)))
			record(t, c13Input{Kind: "scan", Reset: reset, Now: now}, call, o)
		case "get":
			k := int(op.A) % len(s.keyCat)
			fk := aggKeyOf(k, s.keyV6[k])
			recs := s.ap.GetRecords(&fk)
			o := c13Output{Present: len(recs) > 0}
			if len(recs) > 1 {
				env.Violate("two-records-for-one-key", "", "GetRecords(key %d) returned %d records", k, len(recs))
			}
			if len(recs) > 0 {
				m := recs[0]
				o.Snap = takeSnap(func(n string) (string, bool) { return mapStr(m, n) })
				hold(t, m, fmt.Sprintf("GetRecords(key %d) by task %d", k, t))
			}
			record(t, c13Input{Kind: "get", Key: k, Now: now}, call, o)
		case "getall":
			filter := int(op.A)
			if filter >= len(s.keyCat) || filter < -2 {
				filter = -1
			}
			var fkp *intermediate.FlowKey
			switch {
			case filter == -2:
				fkp = &intermediate.FlowKey{Protocol: 6}
			case filter >= 0:
				fkp = &intermediate.FlowKey{SourceAddress: aggKeyOf(filter, s.keyV6[filter]).SourceAddress}
			}
			recs := s.ap.GetRecords(fkp)
			o := c13Output{}
			for _, m := range recs {
				m := m
				k := -1
				src, _ := mapStr(m, "sourceIPv4Address")
				src6, _ := mapStr(m, "sourceIPv6Address")
				sport, _ := mapStr(m, "sourceTransportPort")
				for i := range s.keyCat {
					fk := aggKeyOf(i, s.keyV6[i])
					if ((!s.keyV6[i] && src == fk.SourceAddress) || (s.keyV6[i] && src6 == fk.SourceAddress)) && sport == fmt.Sprint(fk.SourcePort) {
						k = i
					}
				}
				o.All = append(o.All, c13Call{Key: k, Snap: takeSnap(func(n string) (string, bool) { return mapStr(m, n) })})
				hold(t, m, fmt.Sprintf("GetRecords(filter %d) by task %d, record of key %d", filter, t, k))
			}
			sort.Slice(o.All, func(i, j int) bool { return o.All[i].Key < o.All[j].Key })
			env.Count("agg.list_queries", 1)
			record(t, c13Input{Kind: "getall", Filter: filter, Now: now}, call, o)
		case "num":
			n := s.ap.GetNumFlows()
			record(t, c13Input{Kind: "num", Now: now}, call, c13Output{Num: int(n)})
		case "expiry":
			d := s.ap.GetExpiryFromExpirePriorityQueue()
			record(t, c13Input{Kind: "expiry", Now: now}, call, c13Output{Dur: d})
		}
	}
	_ = exported
	env.Go("driver", func() {
		s, err := newAggSession(env, "C13")
		if err != nil {
			out.Trouble = err.Error()
			return
		}
		sess = s
		// split into phases; records outside the exporter contract (possible in hand-edited or
		// shrunk plans) are not executed
		var phases [][]plan.Op
		var advs []int64
		lastEnd := map[[2]int]uint32{}
		owner := map[[2]int]int{}
		for _, op := range pl.Ops {
			if op.K == "rec" {
				r := s.recOf(op)
				if r.Key < 0 || r.Key >= len(s.keyCat) || r.End <= r.Start {
					continue
				}
				nodes := []int{r.Node}
				if r.Node == nodeSingle {
					nodes = []int{0, 1}
				}
				ok := true
				for _, n := range nodes {
					k := [2]int{r.Key, n}
					if o, seen := owner[k]; seen && o != op.T%nt {
						ok = false // a node's stream belongs to one task
					}
					if r.End <= lastEnd[k] {
						ok = false
					}
				}
				if !ok {
					continue
				}
				for _, n := range nodes {
					k := [2]int{r.Key, n}
					owner[k] = op.T % nt
					lastEnd[k] = r.End
				}
			}
			if op.K == "phase" {
				phases = append(phases, nil)
				advs = append(advs, op.A)
				continue
			}
			if len(phases) == 0 {
				phases = append(phases, nil)
				advs = append(advs, 0)
			}
			phases[len(phases)-1] = append(phases[len(phases)-1], op)
		}
		pool := cfgOr(pl, "pool", 0) == 1
		for p, ops := range phases {
			if advs[p] > 0 {
				env.Sleep(time.Duration(advs[p]))
			}
			if pool && p == len(phases)-1 {
				runC13Pool(env, s, ops, &history)
				continue
			}
			per := make([][]plan.Op, nt)
			keysOf := make([]map[int]bool, nt)
			for _, op := range ops {
				t := op.T % nt
				per[t] = append(per[t], op)
				if op.K == "rec" || op.K == "get" {
					if keysOf[t] == nil {
						keysOf[t] = map[int]bool{}
					}
					keysOf[t][int(op.A)] = true
				}
			}
			for a := 0; a < nt; a++ {
				for b := a + 1; b < nt; b++ {
					for k := range keysOf[a] {
						if keysOf[b][k] {
							overlapShared++
						}
					}
				}
			}
			done := make(chan struct{}, nt)
			for t := 0; t < nt; t++ {
				t := t
				env.Go(fmt.Sprintf("w%d", t), func() {
					defer func() { done <- struct{}{} }()
					for _, op := range per[t] {
						doOp(t, op)
					}
				})
			}
			for t := 0; t < nt; t++ {
				Block("join", func() { <-done })
			}
		}
	})
	res := env.Run()
	if res == "stuck" && sess != nil {
		// every task is blocked and no timer is pending: an operation of the aggregation process
		// never returns, so no sequential order explains the history
		env.Violate("operation-never-returns", "", "the run did not finish: with all tasks blocked and no timer pending, %d operations had returned and at least one never does (deadlock inside the aggregation process)", len(history))
		return
	}
	if res != "done" && out.Trouble == "" {
		env.runEnded(res, out)
		return
	}
	if sess == nil {
		return
	}
	for t := 0; t < nt; t++ {
		recheck(t)
	}
	// ---- linearizability (outside the scheduler; porcupine's timeout reads the real clock) ----
	oraclePhase()
	model := c13Model(sess.model.Active, sess.model.Inactive, sess.model.MaxRetries, intermediate.MinExpiryTime)
	linTimeout := 20 * time.Second
	if pl.Mode == "race" {
		linTimeout = 10 * time.Second
	}
	resLin, info := porcupine.CheckOperationsVerbose(model, history, linTimeout)
	_ = info
	switch resLin {
	case porcupine.Illegal:
		var b strings.Builder
		sort.Slice(history, func(i, j int) bool { return history[i].Call < history[j].Call })
		for _, h := range history {
			fmt.Fprintf(&b, "[t%d %d..%d %s] ", h.ClientId, h.Call, h.Return, model.DescribeOperation(h.Input, h.Output))
		}
		env.Violate("not-linearizable", "", "no sequential order of the %d operations consistent with real time explains the observed results: %s", len(history), b.String())
	case porcupine.Unknown:
		out.Add("probe.linearizability_check_timed_out", 1)
	}
	// ---- after the run: map/heap bijection ----
	heapItems, mapItems := sess.ap.VerifSnapshot()
	if len(heapItems) != len(mapItems) {
		env.Violate("held-iff-scheduled", "", "after the run %d flows are held and %d entries scheduled", len(mapItems), len(heapItems))
	}
	for _, it := range mapItems {
		if !it.ItemMatch {
			env.Violate("held-iff-scheduled", "stranded", "after the run flow %v is held but not scheduled", it.Key)
		}
	}
	seen := map[intermediate.FlowKey]int{}
	for _, it := range heapItems {
		seen[it.Key]++
		if seen[it.Key] > 1 {
			env.Violate("held-iff-scheduled", "duplicate", "after the run flow %v is scheduled more than once", it.Key)
		}
	}
	out.Add("c13.operations", int64(len(history)))
	out.Add("probe.task_pairs_sharing_a_key", int64(overlapShared))
	out.Nontrivial = overlapShared > 0
	if out.Hash == "" {
		out.Hash = fmt.Sprintf("seed-%d", pl.Seed)
	}
	out.Sample = map[string]any{"tasks": nt, "operations": len(history), "phases": len(history) > 0, "pairs_sharing_key": overlapShared, "linearizable": string(resLin)}
}

// runC13Pool pushes the phase's records through the built-in worker pool
// (Start / message channel / workers / Stop) and compares the final state of
// every flow with the model after the same records: per-node streams are owned
// by one task each and there are no ties, so the final state does not depend on
// the order in which the workers take the messages.
func runC13Pool(env *Env, s *aggSession, ops []plan.Op, history *[]porcupine.Operation) {
	// model state before the phase = sequential replay of the recorded history is not available
	// here, so the pool member only runs when it is the only phase with records for its keys.
	model := newAggModel(s.model.Active, s.model.Inactive, s.model.MaxRetries)
	if len(*history) > 0 {
		// earlier phases ran: replay their records in stamp order per node (order-independent, see above)
		hs := append([]porcupine.Operation(nil), *history...)
		sort.Slice(hs, func(i, j int) bool { return hs[i].Call < hs[j].Call })
		for _, h := range hs {
			in := h.Input.(c13Input)
			if in.Kind == "scan" || in.Kind == "resetall" {
				return // exports / resets in earlier phases: the pool member is skipped
			}
			if in.Kind == "rec" {
				model.ingest(in.Rec, in.Now)
			}
		}
	}
	nowT := time.Now()
	started := make(chan struct{})
	env.Go("pool-start", func() {
		close(started)
		s.ap.Start()
	})
	Block("pool-wait", func() { <-started })
	nt := 2
	done := make(chan struct{}, nt)
	per := make([][]plan.Op, nt)
	// The workers take messages from one shared channel, so two records of the same node's
	// stream that are in flight together may be applied in either order, and the process (by
	// design) ignores a record that is not newer than its node's previous one. The pool member
	// therefore sends at most one record per (key, node) stream.
	inFlight := map[[2]int]bool{}
	for _, op := range ops {
		if op.K == "rec" {
			r := s.recOf(op)
			k := [2]int{r.Key, r.Node}
			if inFlight[k] {
				continue
			}
			inFlight[k] = true
			per[op.T%nt] = append(per[op.T%nt], op)
		}
	}
	for t := 0; t < nt; t++ {
		t := t
		env.Go(fmt.Sprintf("feeder%d", t), func() {
			defer func() { done <- struct{}{} }()
			for _, op := range per[t] {
				r := s.recOf(op)
				var msg *entities.Message = s.buildMessage(r, s.keyV6[r.Key])
				Block("feed", func() { s.msgCh <- msg })
				env.Count("agg.records_through_pool", 1)
			}
		})
	}
	for t := 0; t < nt; t++ {
		Block("join", func() { <-done })
	}
	env.Sleep(time.Nanosecond) // workers finish the messages they took before the clock can move
	Block("pool-stop", func() { s.ap.Stop() })
	// Stop has returned: no goroutine of the aggregation process may be left, and nobody takes
	// messages from the channel any more
	env.Sleep(time.Millisecond)
	if left := census(func(g string) bool { return strings.Contains(g, "go-ipfix/pkg/intermediate.") }); len(left) > 0 {
		env.Violate("worker-alive-after-stop", "", "%d goroutines of the aggregation process are still running after Stop returned, e.g. %s", len(left), oneLineStack(left[0]))
	}
	// expected final state: any order consistent with the per-node streams
	for t := 0; t < nt; t++ {
		for _, op := range per[t] {
			model.ingest(s.recOf(op), nowT)
		}
	}
	if n := s.ap.GetNumFlows(); int(n) != len(model.Flows) {
		env.Violate("pool-flow-count", "", "after the worker pool processed the records %d flows are held, the model has %d", n, len(model.Flows))
	}
	for k, f := range model.Flows {
		fk := aggKeyOf(k, s.keyV6[k])
		recs := s.ap.GetRecords(&fk)
		if len(recs) != 1 {
			env.Violate("pool-one-record-per-key", "", "key %d: %d records after the worker pool processed the records", k, len(recs))
			continue
		}
		m := recs[0]
		want := expectedSnap(f)
		// common "latest reporter" fields depend only on end times (no ties), per-node fields on the node's own stream
		if d := snapDiff(want, takeSnap(func(n string) (string, bool) { return mapStr(m, n) })); d != "" {
			env.Violate("pool-lost-update", "", "key %d after the worker pool: %s", k, d)
		}
	}
}

// firstDiff returns the "name=value;" item of a that is not in b (rendered maps).
func firstDiff(a, b string) string {
	have := map[string]bool{}
	for _, it := range strings.Split(b, ";") {
		have[it] = true
	}
	for _, it := range strings.Split(a, ";") {
		if it != "" && !have[it] {
			return it
		}
	}
	return ""
}
