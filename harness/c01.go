package harness

import (
	"bytes"
	"fmt"
	"math/rand/v2"
	"net"
	"time"

	"github.com/vmware/go-ipfix/pkg/collector"
	"github.com/vmware/go-ipfix/pkg/entities"
	"github.com/vmware/go-ipfix/pkg/exporter"
	"github.com/vmware/go-ipfix/pkg/verifsim/simnet"

	"verif/oracle/ipfixref"
	"verif/sim/plan"
)

// C01 — end-to-end fidelity: what an exporter is given is what a collector delivers.
//
// System: real InitExportingProcess (dial redirected) -> simnet -> real
// CollectingProcess.Start() -> consumer. Cfg: transport (0 tcp, 1 udp, 2 tls, 3 dtls),
// v6, domain, lossy (udp only: loss / duplication / delay on the datagram path),
// chunk (tcp: plan-chosen segmentation of the exporter's writes).
// Ops: the exporter-session ops tmpl / data / adv (see expsession.go).

func init() {
	register(&Prop{
		ID: "C01", Gen: genC01, Run: runC01, Quick: 1200, Thorough: 150000,
		Real: []string{"pkg/exporter (whole, incl. TLS/DTLS client configuration)", "pkg/collector (whole: Start, accept loops, TCP/UDP/TLS/DTLS handlers, decode, template table)", "pkg/entities", "pkg/registry", "crypto/tls", "crypto/x509", "pion/dtls handshake and record layer"},
		Stub: []string{"OS sockets and kernel TCP/UDP (simnet)", "wall clock (synctest bubble)", "tls.Dial's ServerName defaulting (5 lines in simnet.TlsDial)"},
		Rule: "1-3 templates of 1-40 registry elements (all supported types, duplicates allowed), data sets of 1..fit records through the three add paths with boundary and random values, over tcp/udp/tls/dtls x IPv4/IPv6; tcp writes are segmented and delayed; a lossy-udp member injects loss, duplication and reordering; slow consumers, template lifetimes from 1 s to the largest value, stream collectors with small MaxBufferSize, a foreign exporter first; runs with DTLS contain pion/dtls's own (uncontrolled) goroutines; non-trivial = at least one data message delivered; distinct = distinct event-log hash",
	})
}

var transportNames = []string{"tcp", "udp", "tls", "dtls"}

func genC01(seed uint64, tier string) *plan.Plan {
	r := rand.New(rand.NewPCG(seed, 0xc01))
	pl := &plan.Plan{Cfg: map[string]int64{}}
	tr := r.IntN(4)
	pl.Cfg["transport"] = int64(tr)
	pl.Cfg["v6"] = int64(r.IntN(2))
	pl.Cfg["domain"] = int64(r.Uint32())
	pl.Cfg["refresh"] = 600
	if tr == 1 && r.IntN(3) == 0 {
		pl.Cfg["lossy"] = 1
		pl.Cfg["loss_pct"] = int64(r.IntN(40))
		pl.Cfg["dup_pct"] = int64(r.IntN(30))
		pl.Cfg["delay_pct"] = int64(r.IntN(50))
	}
	if tr == 0 || tr == 2 {
		pl.Cfg["chunk"] = int64(r.IntN(4)) // 0 none, 1 tiny pieces, 2 random pieces, 3 delayed pieces
	}
	limit := 65535
	if tr == 3 {
		limit = 8000 // one DTLS record
	}
	if tr == 1 {
		limit = 65000
	}
	pl.Cfg["limit"] = int64(limit)
	pl.Cfg["max_steps"] = 4_000_000 // 400 records x 40 fields are legitimate
	// 1-3 consecutive exporter sessions against one long-lived collector (each exporter numbers its
	// templates from 256 again; half of the time the sessions share the observation domain)
	nSess := 1
	if tr != 3 && r.IntN(3) == 0 {
		nSess = 2 + r.IntN(2)
	}
	pl.Cfg["sessions"] = int64(nSess)
	pl.Cfg["same_domain"] = int64(r.IntN(2))
	longUDP := tr == 1 && pl.Cfg["lossy"] == 0 && r.IntN(3) == 0
	if longUDP {
		// a UDP session that outlives template lifetimes: refresh 2 s, collector lifetime 5 s
		pl.Cfg["refresh"] = 2
		pl.Cfg["ttl"] = 5
	}
	if (tr == 0 || tr == 2) && r.IntN(3) == 0 {
		pl.Cfg["maxbuf"] = []int64{0, 1, 512, 1024, 9000}[r.IntN(5)]
	}
	hugeTTL := false
	if (tr == 1 || tr == 3) && !longUDP && pl.Cfg["lossy"] == 0 && r.IntN(4) == 0 {
		// a collector whose template lifetime is "practically for ever": weeks, months, or the largest
		// value the field holds, and a session with seconds between its sends. No template is
		// refreshed in that time and none may expire.
		pl.Cfg["ttl"] = []int64{4294967, 4294968, 5184000, 31536000, 4294967295}[r.IntN(5)]
		hugeTTL = true
	}
	if (tr == 0 || tr == 2) && r.IntN(4) == 0 {
		// a stream collector that is configured with a template lifetime (which has no meaning on a
		// stream: templates live as long as the session) and a session that goes on for much longer
		pl.Cfg["ttl"] = []int64{1, 2, 5}[r.IntN(3)]
		longUDP = true // same pacing: several seconds between sends
	}
	// a consumer behind the collector that stops taking messages for a while: the collector stops
	// reading, the (bounded) receive window fills and the exporter's sends block until it resumes
	slowConsumer := (tr == 0 || tr == 2) && r.IntN(3) == 0
	if slowConsumer {
		pl.Cfg["window"] = []int64{2048, 8192, 65536}[r.IntN(3)]
	}
	if tr == 1 && pl.Cfg["lossy"] == 0 && !longUDP && !hugeTTL && r.IntN(2) == 0 {
		// over UDP nothing pushes back on the exporter: datagrams wait in the socket and inside the
		// collector while the consumer is away, and come out in the order they arrived
		slowConsumer = true
	}
	for sess := 0; sess < nSess; sess++ {
		nT := 1 + r.IntN(3)
		sizes := make([]int, nT)
		for i := 0; i < nT; i++ {
			n := 1 + r.IntN(8)
			if r.IntN(5) == 0 {
				n = 1 + r.IntN(40)
			}
			sizes[i] = n
			pl.Ops = append(pl.Ops, plan.Op{K: "tmpl", T: sess, A: int64(i), N: pickElems(r, n, false)})
		}
		nOps := 2 + r.IntN(9)
		burst := 0
		for i := 0; i < nOps; i++ {
			slot := r.IntN(nT)
			maxVar := []int64{0, 10, 254, 255, 256, 300, 2000, 65535}[r.IntN(8)]
			if int(maxVar) > limit/2 {
				maxVar = int64(limit / 2)
			}
			nrec := 1 + r.IntN(8)
			if r.IntN(6) == 0 {
				nrec = 1 + r.IntN(400) // towards "as many as fit"
				maxVar = int64(r.IntN(4))
			}
			op := plan.Op{K: "data", T: sess, A: int64(slot), B: int64(nrec), C: int64(r.Uint64() >> 1), D: maxVar, S: []string{"", "extra", "v2"}[r.IntN(3)]}
			if r.IntN(12) == 0 && tr != 3 && tr != 1 {
				op.F = []plan.Op{{K: "size", A: int64(65535 - r.IntN(3))}} // a message of exactly (or nearly) the maximum size
				op.B = 1
			}
			if slowConsumer && burst == 0 && len(pl.Ops) < 60 && r.IntN(3) == 0 {
				pl.Ops = append(pl.Ops, plan.Op{K: "cstall", T: sess, B: []int64{50, 900, 4000, 7000, 30000, 120000}[r.IntN(6)]})
				if tr == 1 {
					// a burst of datagrams while the consumer is away: several wait inside the collector
					burst = 3 + r.IntN(4)
					nOps += burst
				}
			}
			pl.Ops = append(pl.Ops, op)
			if tr == 1 && r.IntN(8) == 0 {
				pl.Ops = append(pl.Ops, plan.Op{K: "emptydgram", T: sess})
			}
			if burst > 0 {
				burst--
				continue
			}
			if r.IntN(5) == 0 {
				pl.Ops = append(pl.Ops, plan.Op{K: "adv", T: sess, A: int64(r.IntN(3000)) * int64(time.Millisecond)})
			}
			if (longUDP || hugeTTL) && r.IntN(3) == 0 {
				pl.Ops = append(pl.Ops, plan.Op{K: "adv", T: sess, A: int64(1+r.IntN(9)) * int64(time.Second)})
			}
		}
	}
	if (tr == 0 || tr == 1) && r.IntN(5) == 0 {
		// Another vendor's exporter talks to the same collector first (its own observation domain):
		// its template announces fixed lengths for elements the registry lists as variable-length,
		// which RFC 7011 allows. What the collector makes of that exporter's data is not judged here;
		// the session of the exporter under test, in the same process, must be untouched by it.
		pl.Cfg["foreign"] = int64(1 + r.IntN(3))
	}
	if nSess >= 2 {
		// A later session announces, for the same observation domain and template id, a template that
		// differs from the first session's only in the enterprise number of some fields (an IANA element
		// and its reverse twin have the same id, type and length): it is another template, and what the
		// later session sends is delivered under it. A stream of its own keeps older plans as they were.
		r3 := rand.New(rand.NewPCG(seed, 0xc01e))
		if r3.IntN(2) == 0 {
			first := map[int64][]int64{}
			changed := false
			for i, op := range pl.Ops {
				if op.K != "tmpl" {
					continue
				}
				if op.T == 0 {
					first[op.A] = op.N
					continue
				}
				base, ok := first[op.A]
				if !ok {
					continue
				}
				n := append([]int64(nil), base...)
				for k, idx := range n {
					if tw, ok := catalogTwin(int(idx)); ok && r3.IntN(2) == 0 {
						n[k] = int64(tw)
						changed = true
					}
				}
				pl.Ops[i].N = n
			}
			if changed {
				pl.Cfg["same_domain"] = 1
			}
		}
	}
	if hugeTTL && tr == 1 {
		// An exporter that falls silent for longer than the collector keeps a UDP peer's handler
		// (entities.TemplateTTL = 1800 s without a datagram; the refresh interval is set beyond the
		// gaps), then goes on: the templates are still in force (lifetime of weeks), so everything
		// sent after the gap has to be delivered like everything before it. The gaps end at least a
		// minute after the handler's timeout, never at that instant. A stream of its own keeps older plans.
		r2 := rand.New(rand.NewPCG(seed, 0xc01d))
		if r2.IntN(2) == 0 && len(pl.Ops) > 1 {
			pl.Cfg["refresh"] = 86400
			for k := 1 + r2.IntN(2); k > 0; k-- {
				at := 1 + r2.IntN(len(pl.Ops))
				gap := plan.Op{K: "adv", T: pl.Ops[at-1].T, A: int64(1860+r2.IntN(6000)) * int64(time.Second)}
				pl.Ops = append(pl.Ops[:at], append([]plan.Op{gap}, pl.Ops[at:]...)...)
			}
		}
	}
	genSchedule(r, pl, 2, 5000)
	return pl
}

const c01ForeignDomain = 0xF0F0F0F0

// foreignMessages: the template (and one data record) of another vendor's exporter that announces
// fixed lengths (variant 1..3: 4, 32, 200 bytes) for the variable-length elements this plan uses.
func foreignMessages(pl *plan.Plan, variant int64) (tmsg, dmsg []byte) {
	var fields []ipfixref.Field
	seen := map[string]bool{}
	for _, op := range pl.Ops {
		if op.K != "tmpl" {
			continue
		}
		for _, k := range op.N {
			if sp, ok := specFromKey(k); ok && sp.Len == entities.VariableLength && !seen[sp.Name] && len(fields) < 12 {
				seen[sp.Name] = true
				fields = append(fields, ipfixref.Field{ID: sp.ID, Ent: sp.Ent, Len: uint16([]int{4, 32, 200}[(variant-1)%3])})
			}
		}
	}
	if len(fields) == 0 {
		return nil, nil
	}
	tmsg = ipfixref.EncodeMessage(ipfixref.Header{Domain: c01ForeignDomain}, ipfixref.EncodeSet(ipfixref.TemplateSetID, ipfixref.EncodeTemplateRecord(ipfixref.TemplateRecord{ID: 999, Fields: fields})))
	recLen := 0
	for _, f := range fields {
		recLen += int(f.Len)
	}
	dmsg = ipfixref.EncodeMessage(ipfixref.Header{Domain: c01ForeignDomain, Sequence: 1}, ipfixref.EncodeSet(999, make([]byte, recLen)))
	return tmsg, dmsg
}

func runC01(pl *plan.Plan, out *plan.Outcome) {
	env := newEnv(pl, out, keepLogFlag)
	tr := int(cfgOr(pl, "transport", 0))
	v6 := cfgOr(pl, "v6", 0) == 1
	addr := "10.0.0.1:4739"
	if v6 {
		addr = "[fd00::1]:4739"
	}
	z := getZoo()
	cin := collector.CollectorInput{Address: addr, Protocol: "tcp", MaxBufferSize: 65535, IsIPv6: v6, TemplateTTL: uint32(cfgOr(pl, "ttl", 7200))}
	var tlsCfg *exporter.ExporterTLSClientConfig
	if tr == 1 || tr == 3 {
		cin.Protocol = "udp"
		pl.Cfg["proto"] = 1
	} else {
		pl.Cfg["proto"] = 0
		// MaxBufferSize sizes the datagram read buffer; a stream has no use for it, whatever it is set to
		cin.MaxBufferSize = uint16(cfgOr(pl, "maxbuf", 65535))
	}
	if tr >= 2 {
		cin.IsEncrypted = true
		cin.ServerCert, cin.ServerKey = z.SrvGood.CertPEM, z.SrvGood.KeyPEM
		tlsCfg = &exporter.ExporterTLSClientConfig{CAData: z.CA.PEM}
		if tr == 2 && env.Rng.IntN(2) == 0 {
			// mutual TLS
			cin.CACert = z.CA.PEM
			tlsCfg.CertData, tlsCfg.KeyData = z.CliGood.CertPEM, z.CliGood.KeyPEM
		}
		if env.Rng.IntN(2) == 0 {
			tlsCfg.ServerName = serverDNSName
		}
	}
	cp, err := collector.InitCollectingProcess(cin)
	if err != nil {
		out.Trouble = err.Error()
		return
	}
	lossy := cfgOr(pl, "lossy", 0) == 1
	chunk := int(cfgOr(pl, "chunk", 0))
	if chunk == 3 && cfgOr(pl, "window", 0) > 0 {
		// With a bounded window a write reaches the socket in many small portions; delaying pieces of
		// every portion adds up to more than the time the harness waits for deliveries before it
		// stops the collector. Segmentation without delays is kept.
		chunk = 2
	}
	dups := 0
	if tr == 1 && lossy {
		prev := env.Net.OnUDPBind
		_ = prev
	}
	var got []dMsg
	var consumerStallUntil time.Time
	env.Go("collector", func() { cp.Start() })
	env.Go("consumer", func() {
		for {
			env.mu.Lock()
			until := consumerStallUntil
			env.mu.Unlock()
			if d := time.Until(until); d > 0 {
				env.Count("fault.consumer_stall", 1)
				env.Sleep(d)
				continue
			}
			var msg *entities.Message
			var ok bool
			Block("consume", func() { msg, ok = <-cp.GetMsgChan() })
			if !ok {
				return
			}
			got = append(got, captureMsg(msg))
		}
	})
	var sessions []*expSession
	nSess := int(cfgOr(pl, "sessions", 1))
	baseDomain := cfgOr(pl, "domain", 1)
	env.Go("app", func() {
		env.Sleep(time.Millisecond)
		if fl := cfgOr(pl, "foreign", 0); fl > 0 && (tr == 0 || tr == 1) {
			tmsg, dmsg := foreignMessages(pl, fl)
			if tmsg != nil {
				env.Count("fault.foreign_exporter_with_fixed_length_strings", 1)
				var c net.Conn
				var err error
				Block("foreign-dial", func() {
					if tr == 1 {
						host, port := "10.0.0.1", 4739
						if v6 {
							host = "fd00::1"
						}
						c, err = env.Net.DialUDP(&net.UDPAddr{IP: net.ParseIP(host), Port: port})
					} else {
						c, err = env.Net.Dial("tcp", addr)
					}
				})
				if err == nil {
					Block("foreign-write", func() { c.Write(tmsg) })
					env.Sleep(time.Millisecond)
					Block("foreign-write", func() { c.Write(dmsg) })
					env.Sleep(10 * time.Millisecond)
					c.Close()
					env.Sleep(10 * time.Millisecond)
				}
			}
		}
		for si := 0; si < nSess; si++ {
			if cfgOr(pl, "same_domain", 0) == 0 {
				pl.Cfg["domain"] = baseDomain + int64(si)
			}
			var s *expSession
			var err error
			Block("init", func() { s, err = newExpSessionOpts(env, expOpts{noListener: true, tls: tlsCfg, addr: addr}) })
			if err != nil {
				out.Trouble = "exporter init failed: " + err.Error()
				break
			}
			sessions = append(sessions, s)
			s.onConsumerStall = func(d time.Duration) {
				env.mu.Lock()
				if t := time.Now().Add(d); t.After(consumerStallUntil) {
					consumerStallUntil = t
				}
				env.mu.Unlock()
			}
			var ops []plan.Op
			for _, op := range pl.Ops {
				if op.T == si {
					ops = append(ops, op)
				}
			}
			s.runOps(ops)
			env.Sleep(180 * time.Second) // let delayed pieces / datagrams arrive
			s.closeExporter()
			env.Sleep(time.Second)
		}
		Block("stop", func() { cp.Stop() })
		cp.CloseMsgChan()
	})
	// fault hooks are installed when the exporter's socket appears
	prevConnect := env.Net.OnConnect
	env.Net.OnConnect = func(cl, sv *simnet.Conn) {
		if prevConnect != nil {
			prevConnect(cl, sv)
		}
		if w := int(cfgOr(pl, "window", 0)); w > 0 {
			sv.SetWindow(w)
			env.Count("c01.sessions_with_bounded_window", 1)
		}
		if chunk > 0 {
			hr := rand.New(rand.NewPCG(pl.Seed, 0xc4))
			cl.Hook = func(_ *simnet.Conn, p []byte) simnet.WritePlan {
				wp := simnet.WritePlan{Accept: -1}
				rest := len(p)
				for rest > 0 && len(wp.Pieces) < 64 {
					k := rest
					switch chunk {
					case 1:
						k = 1 + hr.IntN(5)
					case 2, 3:
						k = 1 + hr.IntN(rest)
					}
					if k > rest {
						k = rest
					}
					pc := simnet.Piece{Len: k}
					if chunk == 3 && hr.IntN(2) == 0 {
						pc.Delay = time.Duration(hr.IntN(800)) * time.Millisecond
					}
					wp.Pieces = append(wp.Pieces, pc)
					rest -= k
				}
				return wp
			}
		}
	}
	prevBind := env.Net.OnUDPBind
	env.Net.OnUDPBind = func(c *simnet.UDPConn) {
		if prevBind != nil {
			prevBind(c)
		}
		if lossy && c.RemoteAddr() != nil {
			hr := rand.New(rand.NewPCG(pl.Seed, 0x1055))
			c.Hook = func(_ *simnet.UDPConn, to *net.UDPAddr, p []byte) simnet.Fate {
				f := simnet.Fate{}
				if int64(hr.IntN(100)) < cfgOr(pl, "loss_pct", 0) {
					f.Drop = true
					return f
				}
				d := time.Duration(0)
				if int64(hr.IntN(100)) < cfgOr(pl, "delay_pct", 0) {
					d = time.Duration(hr.IntN(5000)) * time.Millisecond
				}
				f.Copies = []time.Duration{d}
				if int64(hr.IntN(100)) < cfgOr(pl, "dup_pct", 0) {
					f.Copies = append(f.Copies, d+time.Duration(hr.IntN(3000))*time.Millisecond)
					dups++
				}
				return f
			}
		}
	}
	res := env.Run()
	if res != "done" && out.Trouble == "" {
		env.runEnded(res, out)
		return
	}
	if len(sessions) == 0 {
		return
	}
	// what was sent successfully, in order, over all sessions
	type sent struct {
		c      callRec
		ti     *tmplInfo
		domain uint32
	}
	var sents []sent
	for _, sess := range sessions {
		for _, c := range sess.calls {
			if c.Err != nil {
				if c.Valid {
					env.Violate("valid-send-rejected", c.Kind, "call (%s, slot %d, message of %d bytes, transport %s) was rejected: %v", c.Kind, c.Slot, c.MsgLen, transportNames[tr], c.Err)
				}
				continue
			}
			sents = append(sents, sent{c, sess.tmpls[c.Slot], sess.domain})
		}
	}
	match := func(s sent, d dMsg) string {
		if d.Domain != s.domain {
			return fmt.Sprintf("observation domain %d delivered, %d configured", d.Domain, s.domain)
		}
		if s.c.Kind == "tmpl" {
			if !d.IsTemplate || len(d.Records) != 1 {
				return fmt.Sprintf("template sent, delivered template=%v with %d records", d.IsTemplate, len(d.Records))
			}
			if d.SetID != s.ti.ID {
				return fmt.Sprintf("template id %d delivered, %d sent", d.SetID, s.ti.ID)
			}
			if len(d.Records[0]) != len(s.ti.Specs) {
				return fmt.Sprintf("%d template fields delivered, %d sent", len(d.Records[0]), len(s.ti.Specs))
			}
			for i, sp := range s.ti.Specs {
				g := d.Records[0][i]
				if g.ID != sp.ID || g.Ent != sp.Ent || g.Type != sp.Type || g.Len != sp.Len || g.Name != sp.Name {
					return fmt.Sprintf("template field %d: delivered (%s id=%d ent=%d type=%d len=%d), sent (%s id=%d ent=%d type=%d len=%d)", i, g.Name, g.ID, g.Ent, g.Type, g.Len, sp.Name, sp.ID, sp.Ent, sp.Type, sp.Len)
				}
			}
			return ""
		}
		if d.IsTemplate {
			return "data sent, template delivered"
		}
		if len(d.Records) != len(s.c.Records) {
			return fmt.Sprintf("%d records delivered, %d sent", len(d.Records), len(s.c.Records))
		}
		for ri, rec := range s.c.Records {
			if len(d.Records[ri]) != len(rec.Wires) {
				return fmt.Sprintf("record %d: %d fields delivered, %d sent", ri, len(d.Records[ri]), len(rec.Wires))
			}
			for fi, w := range rec.Wires {
				g := d.Records[ri][fi]
				sp := s.ti.Specs[fi]
				if g.ID != sp.ID || g.Ent != sp.Ent {
					return fmt.Sprintf("record %d field %d: element %d/%d delivered, %d/%d sent", ri, fi, g.Ent, g.ID, sp.Ent, sp.ID)
				}
				if !g.OK || !bytes.Equal(g.Wire, w) {
					return fmt.Sprintf("record %d field %d (%s, type %d): delivered % x (len %d), handed % x (len %d)", ri, fi, sp.Name, sp.Type, head(g.Wire, 16), len(g.Wire), head(w, 16), len(w))
				}
			}
		}
		return ""
	}
	{
		kept := got[:0:0]
		for _, d := range got {
			if d.Domain != c01ForeignDomain {
				kept = append(kept, d)
			}
		}
		got = kept
	}
	if !lossy {
		// deliveries = the successful sends, in order; over UDP the exporter's periodic template
		// refresh additionally delivers templates that were already sent (skipped)
		i, refreshes := 0, 0
		for gi, d := range got {
			if i < len(sents) && match(sents[i], d) == "" {
				i++
				continue
			}
			skipped := false
			if d.IsTemplate && (tr == 1 || tr == 3) {
				for j := 0; j < i; j++ {
					if sents[j].c.Kind == "tmpl" && match(sents[j], d) == "" {
						skipped = true
						refreshes++
						break
					}
				}
			}
			if skipped {
				continue
			}
			if i < len(sents) {
				env.Violate("mismatch", sents[i].c.Kind, "delivery %d over %s, expected successful send %d of %d: %s", gi, transportNames[tr], i, len(sents), match(sents[i], d))
			} else {
				env.Violate("count", transportNames[tr], "%d messages sent successfully over %s, delivery %d is one more", len(sents), transportNames[tr], gi)
			}
			break
		}
		if len(out.Violations) == 0 && i != len(sents) {
			env.Violate("count", transportNames[tr], "%d messages sent successfully over %s, only %d of them were delivered (%d deliveries, %d of them refreshed templates)", len(sents), transportNames[tr], i, len(got), refreshes)
		}
		out.Add("c01.refreshed_templates_delivered", int64(refreshes))
	} else {
		// every delivered message equals some sent message; duplicates at most as injected
		used := make([]int, len(sents))
		for gi, d := range got {
			found := false
			best := -1
			for si := range sents {
				// identical messages may have been sent more than once: charge the least used one
				if match(sents[si], d) == "" && (best < 0 || used[si] < used[best]) {
					best = si
				}
			}
			if best >= 0 {
				used[best]++
				found = true
			}
			if !found {
				env.Violate("lossy-unknown-message", "", "delivery %d over lossy udp equals none of the %d messages sent", gi, len(sents))
				break
			}
		}
		extra := 0
		for _, u := range used {
			if u > 1 {
				extra += u - 1
			}
		}
		if extra > dups {
			env.Violate("lossy-duplicates", "", "%d duplicate deliveries, only %d datagrams were duplicated by the network", extra, dups)
		}
	}
	dataDelivered := 0
	for _, d := range got {
		if !d.IsTemplate {
			dataDelivered++
		}
	}
	for _, s := range sents {
		if s.c.MsgLen >= 65533 {
			out.Add("probe.max_size_message_sent", 1)
		}
		for _, rec := range s.c.Records {
			for _, w := range rec.Wires {
				switch n := len(w); {
				case n == 254, n == 255, n == 256:
					out.Add(fmt.Sprintf("probe.var_len_%d", n), 1)
				case n >= 32000:
					out.Add("probe.var_len_ge_32000", 1)
				}
			}
		}
	}
	out.Add("c01.sent", int64(len(sents)))
	out.Add("c01.delivered", int64(len(got)))
	out.Add("c01.transport."+transportNames[tr], 1)
	out.Nontrivial = dataDelivered > 0
	out.Add("c01.sessions", int64(len(sessions)))
	out.Sample = map[string]any{"transport": transportNames[tr], "v6": v6, "sessions": len(sessions), "sent": len(sents), "delivered": len(got), "lossy": lossy, "chunk": chunk}
}
