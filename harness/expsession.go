package harness

import (
	"bytes"
	"encoding/binary"
	"fmt"
	"math"
	"math/rand/v2"
	"net"
	"sort"
	"strings"
	"sync"
	"time"

	"github.com/vmware/go-ipfix/pkg/entities"
	"github.com/vmware/go-ipfix/pkg/exporter"
	"github.com/vmware/go-ipfix/pkg/registry"
	"github.com/vmware/go-ipfix/pkg/verifsim/simnet"
	"github.com/vmware/go-ipfix/pkg/verifsim/simrt"

	"verif/oracle/ipfixref"
	"verif/sim/plan"
)

// Exporter-session engine shared by C02, C08, C09 and C14: it drives a real
// ExportingProcess (dial redirected to simnet) from a plan, taps every byte the
// exporter hands to its socket, and records what the application asked for.
// Oracles (checkWire, checkBookkeeping, checkNoInvalid) judge the trace.
//
// Plan ops (plan.Op fields):
//   tmpl     A=slot (template id 256+A)  N=element keys (catalog index; >=100000: user catalogue)
//   data     A=slot B=records C=value seed D=max variable length S=add path ("", "extra", "v2")
//            F: {K:"count", A:delta}   wrong field count (delta fields added/removed)
//               {K:"illtyped", A:kind} one value that cannot be encoded for its element
//               {K:"size", A:L}        pad the set so that the whole message is exactly L bytes
//   dataunk  A=slot (never announced)   data set for an unknown template id
//   undef    SendSet on a set that was reset and never prepared
//   adv      A=nanoseconds
//   setseq   A=value (hook)
//   close    exporter CloseConnToCollector
// Cfg: proto (0 tcp, 1 udp), domain, refresh (s), check_ms, v6

var errInjectedWrite = fmt.Errorf("injected write failure")

type wireMsg struct {
	At    time.Time
	By    string // task id of the writer ("" in race mode)
	GID   uint64
	Bytes []byte
	Call  int // index into calls of the application call in progress when written by the app task, else -1
}

type sentRecord struct {
	Wires [][]byte
}

type callRec struct {
	Op      int
	Kind    string
	Slot    int
	T0, T1  time.Time
	N       int
	Err     error
	Records []sentRecord // data: what was handed
	Valid   bool         // the harness built a set that the property says must be accepted
	Expect  string       // "", "error" (must fail and write nothing)
	Why     string
	MsgLen  int  // size target, if any
	W0, W1  int  // wire index range [W0,W1) written by the app task during the call
	Faulted bool // a transport write fault was injected into this call
	IllSet  bool // one value of record 0 cannot be encoded for its element (field IllIdx)
	IllIdx  int
}

type tmplInfo struct {
	ID    uint16
	Specs []elemSpec
	Sent  bool
	// other definitions the application tried to announce for this id (op "retmpl")
	Alt       [][]elemSpec
	Ambiguous bool // a redefinition was transmitted: the slot is not used any more
}

type expSession struct {
	env             *Env
	proto           string
	domain          uint32
	ep              *exporter.ExportingProcess
	mu              sync.Mutex
	wire            []wireMsg
	calls           []callRec
	tmpls           map[int]*tmplInfo
	set             entities.Set
	appGID          uint64
	inCall          int
	closed          bool
	closeAt         time.Time
	refresh         time.Duration
	addr            string
	listener        *simnet.Listener
	seqMarks        []seqMark
	window          int // receive window of the peer (0: unlimited); with a window the peer task reads
	trailingPartial int
	// pending write fault for the next write of the application task (op "wfault")
	wfKind, wfBytes int
	wfFired         int
	// slow collector
	t0           time.Time
	stallUntil   time.Time
	stallForever bool
	peerGone     chan struct{}
	// Write calls on the exporter's stream socket: when each was invoked and the message header it carried
	writeCalls []writeCall
	send2Ch    chan send2Req
	calls2     []call2                         // data sets the second sender handed in for the first sender's templates
	scratch    []entities.InfoElementWithValue // the application's re-used element list
	tscratch   []entities.InfoElementWithValue // ... and the one it builds templates in (AddRecordV2)
	pool       map[string][]pooledVal          // application-owned address values, handed in again and again
	persist    map[int][]entities.InfoElementWithValue
	// C01: called when the application reaches a "cstall" op
	onConsumerStall func(d time.Duration)
	// the last data call that went through the plain path and succeeded (op "resend")
	lastData   *callRec
	lastDataID uint16
	lastDataOp int
	// sendThis: the Set the next send hands over instead of s.set (op "lazytmpl")
	sendThis     entities.Set
	lastDataPath string
}

type writeCall struct {
	At  time.Time
	Hdr [16]byte
}

type seqMark struct {
	wireIdx int
	val     uint32
}

func specFromKey(k int64) (elemSpec, bool) {
	if k >= 100000 {
		i := int(k - 100000)
		if i < len(catalogUser) {
			return catalogUser[i], true
		}
		return elemSpec{}, false
	}
	if k >= 0 && int(k) < len(catalog) {
		return catalog[k], true
	}
	return elemSpec{}, false
}

type expOpts struct {
	noListener bool // the peer is a real collector started by the caller
	tls        *exporter.ExporterTLSClientConfig
	addr       string
	udpHook    func(s *expSession, p []byte) simnet.Fate // fault hook on the exporter's datagram socket
	noPeer     bool                                      // the caller runs its own peer task
	domain     uint32                                    // non-zero: observation domain of this session (several sessions in one run)
}

func newExpSession(env *Env) (*expSession, error) { return newExpSessionOpts(env, expOpts{}) }

func newExpSessionOpts(env *Env, o expOpts) (*expSession, error) {
	pl := env.Plan
	s := &expSession{env: env, tmpls: map[int]*tmplInfo{}, inCall: -1, t0: time.Now(), peerGone: make(chan struct{})}
	s.proto = "tcp"
	if cfgOr(pl, "proto", 0) == 1 {
		s.proto = "udp"
	}
	s.domain = uint32(cfgOr(pl, "domain", 1))
	if o.domain != 0 {
		s.domain = o.domain
	}
	s.addr = "10.0.0.1:4739"
	if cfgOr(pl, "v6", 0) == 1 {
		s.addr = "[fd00::1]:4739"
	}
	if o.addr != "" {
		s.addr = o.addr
	}
	if o.tls == nil {
		// taps see plaintext only; with TLS/DTLS the wire carries ciphertext
		env.Net.OnConnect = func(cl, sv *simnet.Conn) {
			cl.Tap = func(p []byte) { s.tap(p) }
			cl.OnWrite = func(p []byte) {
				if len(p) >= 16 {
					wc := writeCall{At: time.Now()}
					copy(wc.Hdr[:], p[:16])
					s.mu.Lock()
					s.writeCalls = append(s.writeCalls, wc)
					s.mu.Unlock()
				}
			}
			cl.Hook = func(_ *simnet.Conn, p []byte) simnet.WritePlan {
				if s.wfKind == 0 || simrt.GoID() != s.appGID {
					return simnet.WritePlan{Accept: -1}
				}
				kind, k := s.wfKind, s.wfBytes
				s.wfKind = 0
				s.wfFired++
				if k >= len(p) {
					k = len(p) - 1
				}
				if k < 0 {
					k = 0
				}
				switch kind {
				case 1: // short write, no error
					s.env.Count("fault.short_write", 1)
					return simnet.WritePlan{Accept: k}
				case 2: // error after k bytes
					s.env.Count("fault.write_error_after_partial", 1)
					return simnet.WritePlan{Accept: k, Err: errInjectedWrite}
				default: // error, nothing written
					s.env.Count("fault.write_error", 1)
					return simnet.WritePlan{Accept: 0, Err: errInjectedWrite}
				}
			}
		}
		env.Net.OnUDPBind = func(c *simnet.UDPConn) {
			if c.RemoteAddr() != nil {
				c.Tap = func(to *net.UDPAddr, p []byte) { s.tap(p) }
				c.Hook = func(_ *simnet.UDPConn, to *net.UDPAddr, p []byte) simnet.Fate {
					if s.wfKind != 0 && simrt.GoID() == s.appGID {
						s.wfKind = 0
						s.wfFired++
						s.env.Count("fault.write_error", 1)
						return simnet.Fate{Err: errInjectedWrite}
					}
					if o.udpHook != nil {
						return o.udpHook(s, p)
					}
					return simnet.Fate{}
				}
			}
		}
	}
	if s.proto == "tcp" && !o.noListener {
		l, err := env.Net.Listen("tcp", s.addr)
		if err != nil {
			return nil, err
		}
		s.listener = l
	}
	in := exporter.ExporterInput{
		CollectorAddress:    s.addr,
		CollectorProtocol:   s.proto,
		ObservationDomainID: s.domain,
		TempRefTimeout:      uint32(cfgOr(pl, "refresh", 0)),
		IsIPv6:              cfgOr(pl, "v6", 0) == 1,
		CheckConnInterval:   time.Duration(cfgOr(pl, "check_ms", 0)) * time.Millisecond,
		TLSClientConfig:     o.tls,
	}
	s.refresh = time.Duration(in.TempRefTimeout) * time.Second
	if s.proto == "udp" && in.TempRefTimeout == 0 {
		s.refresh = time.Duration(entities.TemplateRefreshTimeOut) * time.Second
	}
	s.window = int(cfgOr(pl, "window", 0))
	if s.window > 0 && s.listener != nil && !o.noPeer {
		s.startPeer()
	}
	ep, err := exporter.InitExportingProcess(in)
	if err != nil {
		return nil, err
	}
	s.ep = ep
	s.set = entities.NewSet(false)
	return s, nil
}

func (s *expSession) tap(p []byte) {
	g := simrt.GoID()
	s.mu.Lock()
	m := wireMsg{At: time.Now(), By: simrt.TaskID(), GID: g, Bytes: append([]byte(nil), p...), Call: -1}
	if g == s.appGID && s.inCall >= 0 {
		m.Call = s.inCall
	}
	s.wire = append(s.wire, m)
	s.mu.Unlock()
}

func (s *expSession) wireLen() int {
	s.mu.Lock()
	defer s.mu.Unlock()
	return len(s.wire)
}

// send performs one SendSet as the application and records the call.
func (s *expSession) send(c callRec) {
	s.mu.Lock()
	c.W0 = len(s.wire)
	s.inCall = len(s.calls)
	s.mu.Unlock()
	c.T0 = time.Now()
	f0 := s.wfFired
	set := s.set
	if s.sendThis != nil {
		set = s.sendThis
	}
	n, err := s.ep.SendSet(set)
	c.T1 = time.Now()
	c.N, c.Err = n, err
	c.Faulted = s.wfFired != f0
	s.mu.Lock()
	c.W1 = len(s.wire)
	s.inCall = -1
	s.calls = append(s.calls, c)
	s.mu.Unlock()
	s.env.Logf("call %d %s slot=%d n=%d err=%v", len(s.calls)-1, c.Kind, c.Slot, n, err != nil)
}

// startPeer runs a slow collector: it accepts the exporter's connection with a bounded receive
// window and reads it, except during the stall periods of the plan, so that the exporter's writes
// block. Stalls are either placed in time (ops {K:"peerstall", A:at ms, B:duration ms}) or in the
// application's history (op {K:"stallnow", B:duration ms, <0: for good}: from the moment the
// application reaches the op).
func (s *expSession) startPeer() {
	s.env.Go("slow-peer", func() {
		var c net.Conn
		var err error
		Block("accept", func() { c, err = s.listener.Accept() })
		if err != nil {
			return
		}
		s.servePeer(c)
	})
}

// servePeer is the slow collector's read loop on an accepted connection.
func (s *expSession) servePeer(c net.Conn) {
	type stall struct{ from, to time.Time }
	var stalls []stall
	t0 := s.t0
	for _, op := range s.env.Plan.Ops {
		if op.K == "peerstall" {
			stalls = append(stalls, stall{t0.Add(time.Duration(op.A) * time.Millisecond), t0.Add(time.Duration(op.A+op.B) * time.Millisecond)})
		}
	}
	c.(*simnet.Conn).SetWindow(s.window)
	buf := make([]byte, 8192)
	var err error
	for {
		now := time.Now()
		for _, st := range stalls {
			if !now.Before(st.from) && now.Before(st.to) {
				s.env.Count("fault.peer_stall", 1)
				s.env.Sleep(st.to.Sub(now))
				now = time.Now()
			}
		}
		s.mu.Lock()
		until, forever := s.stallUntil, s.stallForever
		s.mu.Unlock()
		if forever {
			// the collector never reads again; it goes away when its connection is torn down
			s.env.Count("fault.peer_stall_for_good", 1)
			Block("peer-stalled", func() { <-s.peerGone })
			c.Close()
			return
		}
		if until.After(now) {
			s.env.Count("fault.peer_stall", 1)
			s.env.Sleep(until.Sub(now))
		}
		c.SetReadDeadline(time.Now().Add(50 * time.Millisecond))
		Block("peer-read", func() { _, err = c.Read(buf) })
		if err != nil && !isTimeout(err) {
			c.Close()
			return
		}
		s.mu.Lock()
		closed := s.closed
		s.mu.Unlock()
		if closed && err != nil {
			c.Close()
			return
		}
	}
}

// Second sender: another goroutine of the application that shares the exporting process. It has
// its own set and its own template ids (slots 50+); the application task triggers it with op
// {K:"send2", A:delay ms, B:records (0: announce a new template), C:value seed, N:element keys}.
type send2Req struct {
	op plan.Op
}

type call2 struct {
	Slot int
	Err  error
}

func (s *expSession) startSecondSender() {
	s.send2Ch = make(chan send2Req, 64)
	s.env.Go("app2", func() {
		set := entities.NewSet(false)
		var mine []*tmplInfo
		for {
			var rq send2Req
			var ok bool
			Block("app2-wait", func() { rq, ok = <-s.send2Ch })
			if !ok {
				return
			}
			op := rq.op
			if op.A > 0 {
				s.env.Sleep(time.Duration(op.A) * time.Millisecond)
			}
			if op.S == "for" {
				// a data set for one of the FIRST sender's template ids, handed in while that sender is
				// (perhaps) in the middle of announcing it
				slot := int(op.B)
				var ti *tmplInfo
				for try := 0; try < 40 && ti == nil; try++ {
					s.mu.Lock()
					ti = s.tmpls[slot]
					s.mu.Unlock()
					if ti == nil {
						simrt.Yield("app2-wait-template")
					}
				}
				if ti == nil {
					continue
				}
				r := rand.New(rand.NewPCG(uint64(op.C), 0xda7e))
				set.ResetSet()
				set.PrepareSet(entities.Data, ti.ID)
				elems := make([]entities.InfoElementWithValue, len(ti.Specs))
				for k, sp := range ti.Specs {
					e, err := registry.GetInfoElement(sp.Name, sp.Ent)
					if err != nil {
						panic(err)
					}
					elems[k] = mkElement(sp, e, genWire(r, sp, 16))
				}
				set.AddRecord(elems, ti.ID)
				_, err := s.ep.SendSet(set)
				s.mu.Lock()
				s.calls2 = append(s.calls2, call2{Slot: slot, Err: err})
				s.mu.Unlock()
				s.env.Count("c09.second_sender_data_for_first_senders_template", 1)
				continue
			}
			if op.B == 0 || len(mine) == 0 {
				var specs []elemSpec
				for _, k := range op.N {
					if sp, ok := specFromKey(k); ok {
						specs = append(specs, sp)
					}
				}
				if len(specs) == 0 || len(mine) >= 6 {
					continue
				}
				slot := 50 + len(mine)
				id := uint16(256 + slot)
				elems := make([]entities.InfoElementWithValue, 0, len(specs))
				for _, sp := range specs {
					ie, err := registry.GetInfoElement(sp.Name, sp.Ent)
					if err != nil {
						panic(err)
					}
					el, err := entities.DecodeAndCreateInfoElementWithValue(ie, nil)
					if err != nil {
						panic(err)
					}
					elems = append(elems, el)
				}
				set.ResetSet()
				set.PrepareSet(entities.Template, id)
				set.AddRecord(elems, id)
				ti := &tmplInfo{ID: id, Specs: specs}
				s.mu.Lock()
				s.tmpls[slot] = ti
				s.mu.Unlock()
				_, err := s.ep.SendSet(set)
				s.env.Count("c08.second_sender_sends", 1)
				if err == nil {
					ti.Sent = true
					mine = append(mine, ti)
				}
				continue
			}
			ti := mine[int(op.C>>8)%len(mine)]
			r := rand.New(rand.NewPCG(uint64(op.C), 0xda7c))
			set.ResetSet()
			set.PrepareSet(entities.Data, ti.ID)
			for rec := int64(0); rec < op.B; rec++ {
				elems := make([]entities.InfoElementWithValue, len(ti.Specs))
				for k, sp := range ti.Specs {
					e, err := registry.GetInfoElement(sp.Name, sp.Ent)
					if err != nil {
						panic(err)
					}
					elems[k] = mkElement(sp, e, genWire(r, sp, 16))
				}
				set.AddRecord(elems, ti.ID)
			}
			s.ep.SendSet(set)
			s.env.Count("c08.second_sender_sends", 1)
		}
	})
}

// appGIDInit records the application goroutine (call first, from the app task).
func (s *expSession) appGIDInit() { s.appGID = simrt.GoID() }

// runOps1 executes one op as the application task.
func (s *expSession) runOps1(i int, op plan.Op) {
	switch op.K {
	case "tmpl", "retmpl", "tmplagain":
		s.opTmpl(i, op)
	case "resend":
		s.opResend(i, op)
	case "lazytmpl":
		s.opLazyTmpl(i, op)
	case "emptyprep":
		// a batch that turned out empty: the Set was prepared for a template, nothing was added, it is
		// not sent; the application resets and prepares it for whatever comes next, as always
		if ti := s.tmpls[int(op.A)]; ti != nil {
			s.set.ResetSet()
			if err := s.set.PrepareSet(entities.Data, ti.ID); err != nil {
				panic(err)
			}
			s.env.Count("probe.set_prepared_and_left_empty", 1)
		}
	case "emptysend":
		// ... or it is sent as it is: a Data Set without records. Whatever the exporter makes of it, a
		// call that reports success has written one message of the size it reports
		if ti := s.tmpls[int(op.A)]; ti != nil {
			s.set.ResetSet()
			if err := s.set.PrepareSet(entities.Data, ti.ID); err != nil {
				panic(err)
			}
			s.env.Count("probe.empty_data_set_sent", 1)
			s.send(callRec{Op: i, Kind: "emptydata", Slot: int(op.A), Expect: "any", Why: "a data set without records"})
		}
	case "data":
		s.opData(i, op)
	case "dataunk":
		s.opDataUnknown(i, op)
	case "datasetid":
		s.opDataSetID(i, op)
	case "undef":
		s.set.ResetSet()
		s.send(callRec{Op: i, Kind: "undef", Slot: -1, Expect: "error", Why: "undefined set type"})
	case "adv":
		if op.S == "tick" && s.refresh > 0 {
			// to the very instant of the next template refresh: what the application does next and
			// the refresh are simultaneous, the scheduler orders (and interleaves) them
			d := s.refresh - time.Since(s.t0)%s.refresh
			s.env.Count("probe.application_send_at_refresh_instant", 1)
			s.env.Sleep(d)
			break
		}
		s.env.Sleep(time.Duration(op.A))
	case "emptydgram":
		// somebody else's datagram without payload (a port scan, a keep-alive of another tool) arrives at
		// the collector's UDP port: it is no message, and it is nobody's business but its sender's
		if s.proto == "udp" {
			if ip, port, ok := splitHostPort(s.addr); ok {
				var c *simnet.UDPConn
				var err error
				Block("dial", func() { c, err = s.env.Net.DialUDP(&net.UDPAddr{IP: ip, Port: port}) })
				if err == nil {
					Block("write", func() { c.Write(nil) })
					c.Close()
					s.env.Count("fault.empty_datagram_from_a_stranger", 1)
				}
			}
		}
	case "cstall":
		// the application behind the collector stops consuming for B ms (the caller runs that consumer)
		if s.onConsumerStall != nil {
			s.onConsumerStall(time.Duration(op.B) * time.Millisecond)
		}
	case "send2":
		if s.send2Ch != nil {
			select {
			case s.send2Ch <- send2Req{op}:
			default:
			}
		}
	case "stallnow":
		s.mu.Lock()
		if op.B < 0 {
			s.stallForever = true
		} else if t := time.Now().Add(time.Duration(op.B) * time.Millisecond); t.After(s.stallUntil) {
			s.stallUntil = t
		}
		s.mu.Unlock()
	case "wfault":
		// the next write of the application fails: A=1 short write (B bytes accepted, no error),
		// A=2 error after B bytes, A=3 error with nothing written
		s.wfKind, s.wfBytes = int(op.A), int(op.B)
	case "setseq":
		s.ep.VerifSetSeq(uint32(op.A))
		s.mu.Lock()
		s.seqMarks = append(s.seqMarks, seqMark{len(s.wire), uint32(op.A)})
		s.mu.Unlock()
		s.env.Logf("setseq %d", uint32(op.A))
	case "close":
		s.closeExporter()
	}
}

// runOps executes ops as the application task.
func (s *expSession) runOps(ops []plan.Op) {
	s.appGIDInit()
	for i, op := range ops {
		s.runOps1(i, op)
	}
}

func splitHostPort(addr string) (net.IP, int, bool) {
	h, p, err := net.SplitHostPort(addr)
	if err != nil {
		return nil, 0, false
	}
	var port int
	fmt.Sscan(p, &port)
	ip := net.ParseIP(h)
	return ip, port, ip != nil
}

func (s *expSession) closeExporter() {
	Block("close", func() { s.ep.CloseConnToCollector() })
	s.noteClosed()
}

// noteClosed records that a CloseConnToCollector call has returned (a collector stalled for good
// then sees its connection torn down and goes away).
func (s *expSession) noteClosed() {
	s.mu.Lock()
	if !s.closed {
		s.closed = true
		s.closeAt = time.Now()
		close(s.peerGone)
	}
	s.mu.Unlock()
}

func (s *expSession) opTmpl(i int, op plan.Op) {
	slot := int(op.A)
	old, dup := s.tmpls[slot]
	if dup && op.K != "retmpl" && op.K != "tmplagain" {
		return // each template id is defined once per session (but see "retmpl")
	}
	if (op.K == "retmpl" || op.K == "tmplagain") && (!dup || !old.Sent || old.Ambiguous) {
		return
	}
	var specs []elemSpec
	for _, k := range op.N {
		if sp, ok := specFromKey(k); ok {
			specs = append(specs, sp)
		}
	}
	if op.K == "tmplagain" {
		// the application announces a template it has announced before, unchanged (it may do so at
		// any time): one more template message, nothing else changes
		specs = old.Specs
	}
	if len(specs) == 0 && op.S != "empty" {
		return
	}
	// (S == "empty": a template record without fields - the shape RFC 7011 8.1 uses to withdraw a
	// template. The exporting process takes it like any other template; no data is sent for it.)
	// B > len: the listed elements repeated up to B fields (templates around the message size limit)
	for k := 0; int64(len(specs)) < op.B && op.B <= 17000; k++ {
		specs = append(specs, specs[k])
	}
	id := uint16(256 + slot)
	elems := make([]entities.InfoElementWithValue, 0, len(specs))
	for _, sp := range specs {
		ie, err := registry.GetInfoElement(sp.Name, sp.Ent)
		if err != nil {
			panic(err)
		}
		el, err := entities.DecodeAndCreateInfoElementWithValue(ie, nil)
		if err != nil {
			panic(err)
		}
		elems = append(elems, el)
	}
	s.set.ResetSet()
	if err := s.set.PrepareSet(entities.Template, id); err != nil {
		panic(err)
	}
	if slot%2 == 1 && len(elems) <= 64 {
		// AddRecordV2 keeps the slice it is handed - for as long as the set holds the record. The
		// application re-uses its slice for the next template once this set has been sent and reset.
		if cap(s.tscratch) < 64 {
			s.tscratch = make([]entities.InfoElementWithValue, 0, 64)
		}
		ts := s.tscratch[:len(elems)]
		copy(ts, elems)
		s.env.Count("probe.template_slice_reused_across_sets", 1)
		if err := s.set.AddRecordV2(ts, id); err != nil {
			panic(err)
		}
	} else if err := s.set.AddRecord(elems, id); err != nil {
		panic(err)
	}
	if op.K == "retmpl" {
		// The id is announced again with another definition. The plans arrange for this send to fail
		// (oversize, or a transport write error): the definition in force is then still the one that
		// was transmitted. Should the send succeed, what is "in force" on the exporter's side is not
		// something the property speaks about: the slot is not used any more.
		c := callRec{Op: i, Kind: "retmpl", Slot: slot}
		if 16+s.set.GetSetLength() > 65535 {
			c.Expect, c.Why = "error", "oversize template"
		}
		old.Alt = append(old.Alt, specs)
		s.send(c)
		if s.calls[len(s.calls)-1].Err == nil {
			old.Ambiguous = true
			s.env.Count("probe.redefinition_succeeded_slot_retired", 1)
		} else {
			s.env.Count("fault.failed_template_redefinition", 1)
		}
		return
	}
	if op.K == "tmplagain" {
		s.env.Count("probe.template_announced_again", 1)
		s.send(callRec{Op: i, Kind: "tmpl", Slot: slot, Valid: true})
		return
	}
	ti := &tmplInfo{ID: id, Specs: specs}
	s.mu.Lock()
	s.tmpls[slot] = ti
	s.mu.Unlock()
	c := callRec{Op: i, Kind: "tmpl", Slot: slot, Valid: true}
	if 16+s.set.GetSetLength() > 65535 {
		c.Valid, c.Expect, c.Why = false, "error", "oversize template"
	}
	s.send(c)
	if s.calls[len(s.calls)-1].Err == nil {
		ti.Sent = true
	}
}

func (s *expSession) opDataUnknown(i int, op plan.Op) {
	slot := int(op.A)
	if _, known := s.tmpls[slot]; known {
		return
	}
	id := uint16(256 + slot)
	// the record has the shape of a template that IS known (op.B = its slot) when there is one:
	// field count and lengths are right, only the template id was never announced
	specs := []elemSpec{catalog[0]}
	if t, ok := s.tmpls[int(op.B)]; ok && op.B >= 0 {
		specs = t.Specs
	}
	r := rand.New(rand.NewPCG(uint64(op.C), 0xda7b))
	elems := make([]entities.InfoElementWithValue, len(specs))
	for k, sp := range specs {
		e, err := registry.GetInfoElement(sp.Name, sp.Ent)
		if err != nil {
			panic(err)
		}
		elems[k] = mkElement(sp, e, genWire(r, sp, 8))
	}
	s.set.ResetSet()
	s.set.PrepareSet(entities.Data, id)
	s.set.AddRecord(elems, id)
	s.send(callRec{Op: i, Kind: "dataunk", Slot: slot, Expect: "error", Why: "no template with that id was sent"})
}

// opDataSetID: a Set object carries two template ids - the one PrepareSet wrote into the set header
// (that is the id on the wire) and the one each record was added with (that is the one an exporting
// process can look at). An application that gets them crossed hands in a data set whose id on the wire
// was never announced (A=0, also with no record at all: A=2), or one whose records have the field count
// of another template than the one the wire names (A=1). Either is a data set the statement says is never
// transmitted.
func (s *expSession) opDataSetID(i int, op plan.Op) {
	var slots []int
	for slot, t := range s.tmpls {
		if t != nil && t.Sent && !t.Ambiguous && len(t.Specs) <= 64 {
			slots = append(slots, slot)
		}
	}
	sort.Ints(slots)
	if len(slots) == 0 {
		return
	}
	rec := s.tmpls[slots[int(op.B)%len(slots)]]
	unknown := uint16(300 + op.B%3)
	hdr := unknown
	why := "the set header carries an id no template was sent for (its records were added under a sent template's id)"
	switch op.A {
	case 1:
		var other *tmplInfo
		for _, slot := range slots {
			if t := s.tmpls[slot]; len(t.Specs) != len(rec.Specs) {
				other = t
				break
			}
		}
		if other == nil {
			return
		}
		hdr = other.ID
		why = "the set header carries the id of a template with another field count than the template its records were added under"
	case 2:
		why = "the set header carries an id no template was sent for (the set holds no record)"
	}
	r := rand.New(rand.NewPCG(uint64(op.C), 0xda7c))
	s.set.ResetSet()
	s.set.PrepareSet(entities.Data, hdr)
	if op.A != 2 {
		for n := 1 + int(op.C%3); n > 0; n-- {
			elems := make([]entities.InfoElementWithValue, len(rec.Specs))
			for k, sp := range rec.Specs {
				e, err := registry.GetInfoElement(sp.Name, sp.Ent)
				if err != nil {
					panic(err)
				}
				elems[k] = mkElement(sp, e, genWire(r, sp, 8))
			}
			s.set.AddRecord(elems, rec.ID)
		}
	}
	s.env.Count("fault.invalid_attempt.set_header_id_crossed", 1)
	s.send(callRec{Op: i, Kind: "datasetid", Slot: -1, Expect: "error", Why: why})
}

func (s *expSession) opData(i int, op plan.Op) {
	if lim := int(cfgOr(s.env.Plan, "limit", 0)); lim > 0 && len(op.F) == 0 {
		for try := 0; try < 12 && s.estimate(op) > lim; try++ {
			if op.B > 1 {
				op.B = op.B / 2
			} else {
				op.D = op.D / 2
			}
		}
		if s.estimate(op) > lim {
			return
		}
	}
	s.opData1(i, op)
}

// estimate returns the size of the message opData1 would build for op.
func (s *expSession) estimate(op plan.Op) int {
	ti := s.tmpls[int(op.A)]
	if ti == nil {
		return 0
	}
	r := rand.New(rand.NewPCG(uint64(op.C), 0xda7a))
	nrec := int(op.B)
	if nrec < 1 {
		nrec = 1
	}
	total := 20
	for rec := 0; rec < nrec; rec++ {
		for _, sp := range ti.Specs {
			total += encodedLen(sp, genWire(r, sp, int(op.D)))
		}
	}
	return total
}

func (s *expSession) opData1(i int, op plan.Op) {
	slot := int(op.A)
	ti := s.tmpls[slot]
	if ti == nil || ti.Ambiguous || len(ti.Specs) == 0 {
		return
	}
	if op.C%4 == 2 && len(op.F) == 0 && op.S != "v2" && ti.Sent {
		s.opDataReuse(i, op, ti)
		return
	}
	r := rand.New(rand.NewPCG(uint64(op.C), 0xda7a))
	nrec := int(op.B)
	if nrec < 1 {
		nrec = 1
	}
	maxVar := int(op.D)
	countDelta, countRec, illKind, sizeTarget, shortRec := 0, -1, 0, 0, -1
	for _, f := range op.F {
		switch f.K {
		case "shortrec":
			shortRec = int(f.A) % nrec
		case "count":
			countDelta = int(f.A)
			if f.B > 0 {
				countRec = int(f.B-1) % nrec // only this record of the set has the wrong field count
			}
		case "illtyped":
			illKind = int(f.A)
		case "size":
			sizeTarget = int(f.A)
		}
	}
	c := callRec{Op: i, Kind: "data", Slot: slot, Valid: true, MsgLen: sizeTarget}
	if !ti.Sent {
		c.Valid, c.Expect, c.Why = false, "error", "template was never transmitted successfully"
	}
	specs := ti.Specs
	s.set.ResetSet()
	if err := s.set.PrepareSet(entities.Data, ti.ID); err != nil {
		panic(err)
	}
	total := 16 + 4
	// size targeting: needs a variable-length element in the template
	varIdx := -1
	for k, sp := range specs {
		if sp.Len == entities.VariableLength {
			varIdx = k
		}
	}
	for rec := 0; rec < nrec; rec++ {
		wires := make([][]byte, len(specs))
		for k, sp := range specs {
			wires[k] = genWire(r, sp, maxVar)
		}
		if sizeTarget > 0 && rec == nrec-1 && varIdx >= 0 {
			// choose the last record's variable field so that the message is exactly sizeTarget bytes
			base := 0
			for k, sp := range specs {
				if k != varIdx {
					base += encodedLen(sp, wires[k])
				}
			}
			want := sizeTarget - total - base
			n := -1
			for _, cand := range []int{want - 1, want - 3} {
				if cand >= 0 && cand <= 65535 && encodedLen(specs[varIdx], make([]byte, cand)) == want {
					n = cand
				}
			}
			if n >= 0 {
				w := make([]byte, n)
				for j := range w {
					w[j] = byte('a' + j%26)
				}
				wires[varIdx] = w
			}
		}
		recSpecs := specs
		recWires := wires
		if countRec >= 0 && rec != countRec {
			// this record is in order
		} else if countDelta < 0 && len(specs)+countDelta >= 1 {
			recSpecs, recWires = specs[:len(specs)+countDelta], wires[:len(specs)+countDelta]
		} else if countDelta > 0 {
			recSpecs = append(append([]elemSpec(nil), specs...), specs[:min(countDelta, len(specs))]...)
			recWires = append(append([][]byte(nil), wires...), wires[:min(countDelta, len(specs))]...)
		}
		if len(recSpecs) != len(specs) {
			c.Valid, c.Expect, c.Why = false, "error", "record field count differs from the template"
		}
		// AddRecord and AddRecordWithExtraElements copy the element list they are handed (only
		// AddRecordV2 keeps it): an application may fill one scratch slice again for every record.
		// Half of the calls do that, with fresh element objects in it each time.
		var elems []entities.InfoElementWithValue
		if op.S != "v2" && op.C&1 == 1 {
			if cap(s.scratch) < len(recSpecs) {
				s.scratch = make([]entities.InfoElementWithValue, 0, 2*len(recSpecs)+4)
			}
			elems = s.scratch[:len(recSpecs)]
			s.env.Count("probe.element_slice_reused_across_records", 1)
		} else {
			elems = make([]entities.InfoElementWithValue, len(recSpecs))
		}
		for k, sp := range recSpecs {
			ie, err := registry.GetInfoElement(sp.Name, sp.Ent)
			if err != nil {
				panic(err)
			}
			elems[k] = mkElement(sp, ie, recWires[k])
		}
		if rec == shortRec {
			// One record of the set is not a record of this template: a one-byte element sits where the
			// template has a wider one and its variable-length values are empty, so the record is shorter
			// than any record of the template can be - while its neighbours carry long values. The field
			// count is right. Sent as it is, the set would not be a sequence of records of its template.
			minLen, recLen, at := 0, 0, -1
			for k, sp := range recSpecs {
				if sp.Len == entities.VariableLength {
					minLen++
					recWires[k] = nil
					ie, _ := registry.GetInfoElement(sp.Name, sp.Ent)
					elems[k] = mkElement(sp, ie, nil)
					recLen++
					continue
				}
				minLen += int(sp.Len)
				if at < 0 && sp.Len >= 2 {
					at = k
					recLen++
					continue
				}
				recLen += int(sp.Len)
			}
			if at >= 0 && recLen < minLen && len(recSpecs) == len(specs) {
				ie, err := registry.GetInfoElement("protocolIdentifier", registry.IANAEnterpriseID)
				if err != nil {
					panic(err)
				}
				elems[at] = entities.NewUnsigned8InfoElement(ie, 6)
				c.Valid, c.Expect, c.Why = false, "error", "a record is shorter than the shortest record of its template (a narrower element in one position)"
				s.env.Count("probe.short_record_among_long_ones", 1)
			}
		}
		if illKind > 0 && rec == 0 {
			if k, el, why := illTyped(recSpecs, illKind); k >= 0 {
				elems[k] = el
				c.Valid, c.Expect, c.Why = false, "error", why
				c.IllSet, c.IllIdx = true, k
			}
		}
		var err error
		switch op.S {
		case "extra":
			err = s.set.AddRecordWithExtraElements(elems, 2, ti.ID)
		case "v2":
			err = s.set.AddRecordV2(elems, ti.ID)
		default:
			err = s.set.AddRecord(elems, ti.ID)
		}
		if err != nil {
			panic(err)
		}
		for k := range recSpecs {
			total += encodedLen(recSpecs[k], recWires[k])
		}
		c.Records = append(c.Records, sentRecord{Wires: recWires})
	}
	if total > 65535 {
		c.Valid, c.Expect = false, "error"
		if c.Why == "" {
			c.Why = fmt.Sprintf("message would be %d bytes", total)
		}
	}
	c.MsgLen = total
	s.send(c)
	if last := s.calls[len(s.calls)-1]; last.Valid && last.Err == nil && len(op.F) == 0 {
		s.lastData, s.lastDataID, s.lastDataOp, s.lastDataPath = &last, ti.ID, i, op.S
	} else {
		s.lastData = nil
	}
}

// opLazyTmpl: a batching application that announces a template only when the first record for it is
// pending. The record is already in its data Set (not sent yet); the template record is built from
// the very same element objects - AddRecordV2 takes them as they are, a template has no use for
// their values - and sent; then the data Set goes out. The record carries the values it was given.
func (s *expSession) opLazyTmpl(i int, op plan.Op) {
	slot := int(op.A)
	if _, dup := s.tmpls[slot]; dup {
		return
	}
	var specs []elemSpec
	for _, k := range op.N {
		if sp, ok := specFromKey(k); ok {
			specs = append(specs, sp)
		}
	}
	if len(specs) == 0 || len(specs) > 40 {
		return
	}
	id := uint16(256 + slot)
	r := rand.New(rand.NewPCG(uint64(op.C), 0xda80))
	elems := make([]entities.InfoElementWithValue, len(specs))
	wires := make([][]byte, len(specs))
	total := 16 + 4
	for k, sp := range specs {
		ie, err := registry.GetInfoElement(sp.Name, sp.Ent)
		if err != nil {
			panic(err)
		}
		wires[k] = genWire(r, sp, 30)
		elems[k] = mkElement(sp, ie, wires[k])
		total += encodedLen(sp, wires[k])
	}
	pending := entities.NewSet(false)
	if err := pending.PrepareSet(entities.Data, id); err != nil {
		panic(err)
	}
	if err := pending.AddRecord(elems, id); err != nil {
		panic(err)
	}
	s.set.ResetSet()
	if err := s.set.PrepareSet(entities.Template, id); err != nil {
		panic(err)
	}
	if err := s.set.AddRecordV2(elems, id); err != nil {
		panic(err)
	}
	ti := &tmplInfo{ID: id, Specs: specs}
	s.mu.Lock()
	s.tmpls[slot] = ti
	s.mu.Unlock()
	s.env.Count("probe.template_built_from_a_pending_record", 1)
	s.send(callRec{Op: i, Kind: "tmpl", Slot: slot, Valid: true})
	if s.calls[len(s.calls)-1].Err != nil {
		return
	}
	ti.Sent = true
	s.sendThis = pending
	s.send(callRec{Op: i, Kind: "data", Slot: slot, Valid: true, MsgLen: total, Records: []sentRecord{{Wires: wires}}})
	s.sendThis = nil
}

// opResend sends the Set object as it stands after a successful data send once more: a Set stays
// what it is until it is reset. With S == "prep" the application calls PrepareSet again first, with
// the type and id the Set already has (which changes nothing). The same records go out again, as a
// new message that counts like any other.
func (s *expSession) opResend(i int, op plan.Op) {
	if s.lastData == nil || i != s.lastDataOp+1 || s.set.GetNumberOfRecords() != uint32(len(s.lastData.Records)) || s.set.GetSetType() != entities.Data || len(s.lastData.Records) == 0 {
		return // only directly after the send: nothing else has touched the Set
	}
	s.lastDataOp = i
	if op.S == "prep" {
		if err := s.set.PrepareSet(entities.Data, s.lastDataID); err != nil {
			panic(err)
		}
	}
	c := callRec{Op: i, Kind: "data", Slot: s.lastData.Slot, Valid: true, MsgLen: s.lastData.MsgLen, Records: s.lastData.Records}
	if op.S == "grow" {
		// the batch has grown since it was sent: one more record is added to the Set as it stands, through
		// the add path used before, and the whole batch goes out again
		ti := s.tmpls[s.lastData.Slot]
		if ti == nil || c.MsgLen > 30000 {
			return
		}
		r := rand.New(rand.NewPCG(uint64(op.C), 0xda7f))
		elems := make([]entities.InfoElementWithValue, len(ti.Specs))
		wires := make([][]byte, len(ti.Specs))
		for k, sp := range ti.Specs {
			ie, err := registry.GetInfoElement(sp.Name, sp.Ent)
			if err != nil {
				panic(err)
			}
			wires[k] = genWire(r, sp, 20)
			elems[k] = mkElement(sp, ie, wires[k])
			c.MsgLen += encodedLen(sp, wires[k])
		}
		var err error
		switch s.lastDataPath {
		case "extra":
			err = s.set.AddRecordWithExtraElements(elems, 2, ti.ID)
		case "v2":
			err = s.set.AddRecordV2(elems, ti.ID)
		default:
			err = s.set.AddRecord(elems, ti.ID)
		}
		if err != nil {
			panic(err)
		}
		c.Records = append(append([]sentRecord(nil), c.Records...), sentRecord{Wires: wires})
		s.env.Count("probe.batch_grown_and_sent_again", 1)
	}
	s.env.Count("probe.same_set_sent_again", 1)
	s.send(c)
	if last := s.calls[len(s.calls)-1]; last.Err == nil {
		s.lastData = &last
	}
}

// opDataReuse is the other way applications use the entities API: the element objects of a template
// are created once and given new values through their setters for every record (one record per set,
// ResetSet in between); address and MAC values are application-owned byte slices that are handed in
// as they are, again and again, to whichever element needs that value. The library stores such a
// slice as the element's value; it has no business writing through it.
func (s *expSession) opDataReuse(i int, op plan.Op, ti *tmplInfo) {
	slot := int(op.A)
	r := rand.New(rand.NewPCG(uint64(op.C), 0xda7d))
	specs := ti.Specs
	pooled := func(sp elemSpec) bool {
		return sp.Type == entities.Ipv4Address || sp.Type == entities.Ipv6Address || sp.Type == entities.MacAddress
	}
	if s.pool == nil {
		s.pool, s.persist = map[string][]pooledVal{}, map[int][]entities.InfoElementWithValue{}
	}
	wires := make([][]byte, len(specs))
	shared := make([][]byte, len(specs))
	for k, sp := range specs {
		if !pooled(sp) {
			wires[k] = genWire(r, sp, int(op.D))
			continue
		}
		key := fmt.Sprintf("%d/%d", sp.Type, sp.Len)
		pv := s.pool[key]
		if len(pv) < 3 {
			w := genWire(r, sp, 0)
			pv = append(pv, pooledVal{app: w, pristine: append([]byte(nil), w...)})
			s.pool[key] = pv
		}
		v := pv[r.IntN(len(pv))]
		wires[k], shared[k] = v.pristine, v.app
	}
	els := s.persist[slot]
	if els == nil {
		els = make([]entities.InfoElementWithValue, len(specs))
		for k, sp := range specs {
			ie, err := registry.GetInfoElement(sp.Name, sp.Ent)
			if err != nil {
				panic(err)
			}
			if shared[k] != nil {
				switch sp.Type {
				case entities.MacAddress:
					els[k] = entities.NewMacAddressInfoElement(ie, net.HardwareAddr(shared[k]))
				default:
					els[k] = entities.NewIPAddressInfoElement(ie, net.IP(shared[k]))
				}
			} else {
				els[k] = mkElement(sp, ie, wires[k])
			}
		}
		s.persist[slot] = els
	} else {
		for k, sp := range specs {
			setElement(els[k], sp, wires[k], shared[k])
		}
	}
	s.env.Count("probe.element_objects_reused_with_setters", 1)
	s.set.ResetSet()
	if err := s.set.PrepareSet(entities.Data, ti.ID); err != nil {
		panic(err)
	}
	var err error
	if op.S == "extra" {
		err = s.set.AddRecordWithExtraElements(els, 2, ti.ID)
	} else {
		err = s.set.AddRecord(els, ti.ID)
	}
	if err != nil {
		panic(err)
	}
	total := 16 + 4
	for k := range specs {
		total += encodedLen(specs[k], wires[k])
	}
	if lim := int(cfgOr(s.env.Plan, "limit", 0)); lim > 0 && total > lim && len(op.F) == 0 {
		// the values of this path are not the ones opData's estimate saw: a message above the
		// transport's limit (one DTLS record) is not part of the workload
		s.set.ResetSet()
		return
	}
	c := callRec{Op: i, Kind: "data", Slot: slot, Valid: true, MsgLen: total}
	if total > 65535 {
		c.Valid, c.Expect, c.Why = false, "error", fmt.Sprintf("message would be %d bytes", total)
	}
	c.Records = []sentRecord{{Wires: wires}}
	s.send(c)
}

type pooledVal struct{ app, pristine []byte }

// setElement gives el the value with wire form w through its typed setter; shared (if not nil) is
// the application-owned slice that is handed in for slice-valued types.
func setElement(el entities.InfoElementWithValue, sp elemSpec, w, shared []byte) {
	u := func() uint64 {
		var b [8]byte
		copy(b[8-len(w):], w)
		return binary.BigEndian.Uint64(b[:])
	}
	switch sp.Type {
	case entities.OctetArray:
		el.SetOctetArrayValue(append([]byte(nil), w...))
	case entities.Unsigned8:
		el.SetUnsigned8Value(uint8(u()))
	case entities.Unsigned16:
		el.SetUnsigned16Value(uint16(u()))
	case entities.Unsigned32, entities.DateTimeSeconds:
		el.SetUnsigned32Value(uint32(u()))
	case entities.Unsigned64, entities.DateTimeMilliseconds:
		el.SetUnsigned64Value(u())
	case entities.Signed8:
		el.SetSigned8Value(int8(u()))
	case entities.Signed16:
		el.SetSigned16Value(int16(u()))
	case entities.Signed32:
		el.SetSigned32Value(int32(u()))
	case entities.Signed64:
		el.SetSigned64Value(int64(u()))
	case entities.Float32:
		el.SetFloat32Value(math.Float32frombits(uint32(u())))
	case entities.Float64:
		el.SetFloat64Value(math.Float64frombits(u()))
	case entities.Boolean:
		el.SetBooleanValue(w[0] == 1)
	case entities.MacAddress:
		if shared == nil {
			shared = append([]byte(nil), w...)
		}
		el.SetMacAddressValue(net.HardwareAddr(shared))
	case entities.Ipv4Address, entities.Ipv6Address:
		if shared == nil {
			shared = append([]byte(nil), w...)
		}
		el.SetIPAddressValue(net.IP(shared))
	case entities.String:
		el.SetStringValue(string(w))
	default:
		panic("setElement: unsupported type")
	}
}

// illTyped returns a replacement element whose value cannot be encoded for its
// element: kind 1 = non-IPv4 address in an ipv4Address element, kind 2 = fixed
// length octet array of the wrong length.
func illTyped(specs []elemSpec, kind int) (int, entities.InfoElementWithValue, string) {
	for k, sp := range specs {
		ie, _ := registry.GetInfoElement(sp.Name, sp.Ent)
		switch {
		case kind == 1 && sp.Type == entities.Ipv4Address:
			return k, entities.NewIPAddressInfoElement(ie, net.ParseIP("2001:db8::1")), "IPv6 address handed for an ipv4Address element"
		case kind == 2 && sp.Type == entities.OctetArray && sp.Len != entities.VariableLength:
			return k, entities.NewOctetArrayInfoElement(ie, make([]byte, int(sp.Len)+1)), "fixed-length octet array of the wrong length"
		}
	}
	return -1, nil, ""
}

// ---------------------------------------------------------------------------
// oracles over the recorded trace

type parsedWire struct {
	wireMsg
	Msg *ipfixref.Message
	Err error
}

func (s *expSession) parseWire() []parsedWire {
	s.mu.Lock()
	defer s.mu.Unlock()
	if s.window > 0 && s.proto == "tcp" {
		return s.reassembleLocked()
	}
	out := make([]parsedWire, len(s.wire))
	for i, w := range s.wire {
		m, err := ipfixref.ParseMessage(w.Bytes)
		out[i] = parsedWire{wireMsg: w, Msg: m, Err: err}
	}
	return out
}

// reassembleLocked: with flow control a Write reaches the socket in portions, so the tapped
// byte stream is cut into messages by their own length fields (as any receiver must). A message
// takes the time / writer / call of the portion holding its first byte. A partial message is
// acceptable only as the very last thing on the stream (the connection was closed under a
// blocked write); anything following a partial message is out of frame and fails to parse.
func (s *expSession) reassembleLocked() []parsedWire {
	var stream []byte
	type origin struct {
		off int
		w   wireMsg
	}
	var origins []origin
	for _, w := range s.wire {
		origins = append(origins, origin{len(stream), w})
		stream = append(stream, w.Bytes...)
	}
	find := func(off int) wireMsg {
		best := origins[0].w
		for _, o := range origins {
			if o.off <= off {
				best = o.w
			}
		}
		return best
	}
	var out []parsedWire
	for off := 0; off < len(stream); {
		w := find(off)
		rest := stream[off:]
		if len(rest) < 4 {
			s.trailingPartial = len(rest)
			break
		}
		l := int(rest[2])<<8 | int(rest[3])
		if l < 16 {
			w.Bytes = rest
			out = append(out, parsedWire{wireMsg: w, Err: fmt.Errorf("stream offset %d: message length field %d (stream out of frame)", off, l)})
			break
		}
		if l > len(rest) {
			s.trailingPartial = len(rest)
			break
		}
		w.Bytes = rest[:l]
		m, err := ipfixref.ParseMessage(w.Bytes)
		out = append(out, parsedWire{wireMsg: w, Msg: m, Err: err})
		if err != nil {
			break
		}
		off += l
	}
	return out
}

func fieldsOf(specs []elemSpec) []ipfixref.Field {
	out := make([]ipfixref.Field, len(specs))
	for i, sp := range specs {
		out[i] = sp.field()
	}
	return out
}

func sameFields(a, b []ipfixref.Field) bool {
	if len(a) != len(b) {
		return false
	}
	for i := range a {
		if a[i] != b[i] {
			return false
		}
	}
	return true
}

// checkWire is the C02 invariant: every datagram / every Write on the stream is
// exactly one well-formed message with exactly one set; template sets carry the
// field specifiers of a template the application sent; data sets decode, under
// the template sent for that id, to exactly the values of the call that wrote them.
func (s *expSession) checkWire(prop string) {
	pw := s.parseWire()
	byID := map[uint16]*tmplInfo{}
	for _, t := range s.tmpls {
		byID[t.ID] = t
	}
	for i, w := range pw {
		loc := ""
		if w.Err != nil && w.Call >= 0 && w.Call < len(s.calls) && s.calls[w.Call].Faulted && s.calls[w.Call].Err != nil {
			continue // the part of a message the transport took before the injected write error, reported to the caller
		}
		if w.Err != nil {
			s.env.Violate("wire-malformed", loc, "wire message %d (%d bytes, by %s): %v; head=% x", i, len(w.Bytes), w.By, w.Err, head(w.Bytes, 24))
			continue
		}
		if len(w.Msg.Sets) != 1 {
			s.env.Violate("wire-sets", loc, "wire message %d has %d sets", i, len(w.Msg.Sets))
			continue
		}
		set := w.Msg.Sets[0]
		if int(set.Length) != len(w.Bytes)-16 {
			s.env.Violate("wire-setlen", loc, "wire message %d: set length %d does not cover the rest of the message (%d)", i, set.Length, len(w.Bytes)-16)
		}
		if set.ID == ipfixref.TemplateSetID {
			if len(set.Templates) != 1 {
				s.env.Violate("wire-template", loc, "wire message %d: %d template records in one set", i, len(set.Templates))
				continue
			}
			tr := set.Templates[0]
			ti := byID[tr.ID]
			if ti == nil {
				s.env.Violate("wire-template", loc, "wire message %d: template id %d was never defined by the application", i, tr.ID)
				continue
			}
			okFields := sameFields(tr.Fields, fieldsOf(ti.Specs))
			for _, alt := range ti.Alt {
				okFields = okFields || sameFields(tr.Fields, fieldsOf(alt))
			}
			if !okFields {
				s.env.Violate("wire-template-fields", loc, "wire message %d: template %d field specifiers %v, application defined %v", i, tr.ID, tr.Fields, fieldsOf(ti.Specs))
			}
			// exact length: header + count + specifiers, no padding
			if want := 4 + len(ipfixref.EncodeTemplateRecord(ipfixref.TemplateRecord{ID: tr.ID, Fields: tr.Fields})); int(set.Length) != want {
				s.env.Violate("wire-template-len", loc, "wire message %d: template set length %d, specifiers need %d", i, set.Length, want)
			}
			continue
		}
		ti := byID[set.ID]
		if ti == nil {
			s.env.Violate("wire-data-unknown-template", loc, "wire message %d: data set id %d has no template defined by the application", i, set.ID)
			continue
		}
		recs, left, err := ipfixref.DecodeRecords(set.Body, fieldsOf(ti.Specs))
		if err != nil || left != 0 {
			s.env.Violate("wire-data-shape", loc, "wire message %d: data set %d does not decode under its template: err=%v leftover=%d", i, set.ID, err, left)
			continue
		}
		if w.Call < 0 && strings.HasPrefix(w.By, "task:app2") {
			continue // the second sender's data: shape checked above, values are its own
		}
		if w.Call < 0 || w.Call >= len(s.calls) {
			s.env.Violate("wire-data-origin", loc, "wire message %d: data set not written by an application call", i)
			continue
		}
		c := s.calls[w.Call]
		if c.Expect == "error" && !c.IllSet {
			continue // this message should not exist at all: reported by checkNoInvalid, not compared here
		}
		// (A message whose record 0 holds one value that cannot be encoded should not exist either -
		// that is reported by checkNoInvalid - but if it was transmitted, every OTHER value of it
		// still has to be the one that was handed in.)
		if len(recs) != len(c.Records) {
			s.env.Violate("wire-data-count", loc, "wire message %d: %d records on the wire, %d handed", i, len(recs), len(c.Records))
			continue
		}
		for ri := range recs {
			if len(recs[ri]) != len(c.Records[ri].Wires) {
				s.env.Violate("wire-data-count", loc, "wire message %d record %d: %d fields on the wire, %d handed", i, ri, len(recs[ri]), len(c.Records[ri].Wires))
				break
			}
			bad := false
			for fi := range recs[ri] {
				if c.IllSet && ri == 0 && fi == c.IllIdx {
					continue
				}
				if !bytes.Equal(recs[ri][fi], c.Records[ri].Wires[fi]) {
					sp := ti.Specs[fi]
					s.env.Violate("wire-value", fmt.Sprintf("type%d", sp.Type), "wire message %d record %d field %d (%s, type %d): wire % x, handed % x", i, ri, fi, sp.Name, sp.Type, head(recs[ri][fi], 24), head(c.Records[ri].Wires[fi], 24))
					bad = true
					break
				}
			}
			if bad {
				break
			}
		}
	}
}

func head(b []byte, n int) []byte {
	if len(b) > n {
		return b[:n]
	}
	return b
}

// checkBookkeeping is the C08 oracle.
func (s *expSession) checkBookkeeping() {
	pw := s.parseWire()
	// per successful call: exactly one message written by it, byte count reported exactly
	for ci, c := range s.calls {
		if c.Err != nil {
			continue
		}
		n := 0
		bytesW := 0
		for i := range pw {
			if pw[i].Call == ci {
				n++
				bytesW += len(pw[i].Bytes)
			}
		}
		if c.Faulted {
			s.env.Violate("write-fault-reported-as-success", "", "call %d (%s): the transport accepted only part of the message or failed, but SendSet returned success (n=%d)", ci, c.Kind, c.N)
			continue
		}
		if n != 1 {
			s.env.Violate("one-message-per-call", "", "call %d (%s) succeeded and wrote %d messages", ci, c.Kind, n)
			continue
		}
		if bytesW != c.N {
			s.env.Violate("byte-count", "", "call %d (%s) reported %d bytes, %d were written", ci, c.Kind, c.N, bytesW)
		}
	}
	for i, w := range pw {
		if w.Err != nil || len(w.Msg.Sets) != 1 {
			continue
		}
		h := w.Msg.Header
		if h.Domain != s.domain {
			s.env.Violate("domain", "", "wire message %d carries observation domain %d, configured %d", i, h.Domain, s.domain)
		}
		// Export time. Stream transports: the moment the message was handed to the socket is known
		// (writeCalls). A sender may have waited before that (for an earlier message to drain to a slow
		// collector) and the first byte may have gone out later (full window): the export time is the
		// second of sending - not older than the second before the hand-over (one second of slack for
		// a stamp taken just before a second boundary) and not later than the first byte.
		var best time.Time
		if len(w.Bytes) >= 16 {
			var hdr [16]byte
			copy(hdr[:], w.Bytes[:16])
			for _, wc := range s.writeCalls {
				if wc.Hdr == hdr && !wc.At.After(w.At) {
					best = wc.At // the latest hand-over of these header bytes not after the first byte went out
				}
			}
		}
		if !best.IsZero() {
			if int64(h.ExportTime) < best.Unix()-1 {
				s.env.Violate("export-time", "stale", "wire message %d (by %s) was handed to the socket at second %d but carries export time %d (%d s earlier): stamped before the sender waited its turn", i, w.By, best.Unix(), h.ExportTime, best.Unix()-int64(h.ExportTime))
			} else if int64(h.ExportTime) > w.At.Unix() {
				s.env.Violate("export-time", "", "wire message %d export time %d is after its first byte went out (second %d)", i, h.ExportTime, w.At.Unix())
			}
		}
		if w.Call < 0 && !best.IsZero() {
			continue
		}
		// within [call start, call end] for application messages; == tap time for background datagrams
		lo, hi := w.At.Unix(), w.At.Unix()
		if w.Call >= 0 {
			lo, hi = s.calls[w.Call].T0.Unix(), s.calls[w.Call].T1.Unix()
		} else {
			lo = w.At.Add(-time.Millisecond).Unix() // background send started at its tick
		}
		if int64(h.ExportTime) < lo || int64(h.ExportTime) > hi {
			s.env.Violate("export-time", "", "wire message %d export time %d, sent during [%d,%d]", i, h.ExportTime, lo, hi)
		}
	}
}

// seqCheck verifies sequence numbers; seqMarks say where the hook moved the counter.
func (s *expSession) seqCheck() {
	pw := s.parseWire()
	var cur uint32
	marks := s.seqMarks
	mi := 0
	// "failed attempts are outside this statement": a data SendSet that returned an error may or may
	// not have moved the counter by its record count. From the failed call on (in wire order; by
	// time when the wire is a reassembled stream) the sequence may jump by that count, once, at any
	// later message - messages of another sender that were stamped before the failed call took the
	// send lock still carry the old base. After the jump the counter must again advance exactly.
	type failed struct {
		w0 int
		t0 time.Time
		n  uint32
	}
	var pend []failed
	for _, c := range s.calls {
		if c.Err != nil && c.Kind == "data" && len(c.Records) > 0 {
			pend = append(pend, failed{c.W0, c.T0, uint32(len(c.Records))})
		}
	}
	byTime := s.window > 0 && s.proto == "tcp"
	for i, w := range pw {
		for mi < len(marks) && marks[mi].wireIdx <= i {
			cur = marks[mi].val
			mi++
		}
		if w.Err != nil || len(w.Msg.Sets) != 1 {
			continue
		}
		// records carried by this message: from the handing call when known, else (second sender)
		// counted with the reference decoder under the template it announced
		own := uint32(0)
		if w.Msg.Sets[0].ID != ipfixref.TemplateSetID {
			if w.Call >= 0 {
				own = uint32(len(s.calls[w.Call].Records))
			} else {
				for _, t := range s.tmpls {
					if t.ID == w.Msg.Sets[0].ID {
						if recs, _, err := ipfixref.DecodeRecords(w.Msg.Sets[0].Body, fieldsOf(t.Specs)); err == nil {
							own = uint32(len(recs))
						}
					}
				}
			}
		}
		if len(pend) > 0 {
			// the failed attempts that precede this message; each of them may or may not have moved the
			// counter, so the jump may be the sum of any of them (not only of the earliest ones: a
			// refused set and a set whose write failed can follow each other)
			ne := 0
			for ne < len(pend) && !((byTime && w.At.Before(pend[ne].t0)) || (!byTime && i < pend[ne].w0)) {
				ne++
			}
			// (sums reachable with the first k+1 attempts; an application may go on handing in sets that are
			// refused - a dozen and more - before the one whose write fails)
			if target := w.Msg.Header.Sequence - own - cur; target != 0 {
				reach := map[uint32]bool{0: true}
				for k := 0; k < ne && len(reach) < 1<<16; k++ {
					next := make(map[uint32]bool, 2*len(reach))
					for v := range reach {
						next[v] = true
						next[v+pend[k].n] = true
					}
					reach = next
					if reach[target] {
						cur += target
						pend = pend[k+1:]
						s.env.Count("probe.sequence_rebased_after_failed_attempt", 1)
						break
					}
				}
			}
		}
		set := w.Msg.Sets[0]
		if set.ID != ipfixref.TemplateSetID {
			cur += own
		}
		if w.Msg.Header.Sequence != cur {
			kind := "data"
			if set.ID == ipfixref.TemplateSetID {
				kind = "template"
			}
			s.env.Violate("sequence", kind, "wire message %d (%s, by %s): sequence %d, records transmitted so far (incl.) %d", i, kind, w.By, w.Msg.Header.Sequence, cur)
			if kind == "data" {
				cur = w.Msg.Header.Sequence // resynchronise to report each divergence once
			}
		}
	}
}

// checkNoInvalid is the C09 oracle.
func (s *expSession) checkNoInvalid() {
	pw := s.parseWire()
	for ci, c := range s.calls {
		wrote := 0
		for i := range pw {
			if pw[i].Call == ci {
				wrote += len(pw[i].Bytes)
			}
		}
		switch {
		case c.Expect == "error" && c.Err == nil:
			s.env.Violate("invalid-accepted", c.Kind+":"+clauseWord(c.Why), "call %d (%s): %s, but SendSet returned success (%d bytes)", ci, c.Kind, c.Why, c.N)
		case c.Err != nil && wrote != 0 && !s.isClosedErr(c) && !c.Faulted:
			s.env.Violate("error-but-wrote", c.Kind, "call %d (%s): SendSet returned error %q but %d bytes reached the connection", ci, c.Kind, c.Err, wrote)
		}
	}
	for i, w := range pw {
		if len(w.Bytes) > 65535 {
			s.env.Violate("oversize-on-wire", "", "wire message %d is %d bytes", i, len(w.Bytes))
		}
	}
}

func clauseWord(why string) string {
	switch {
	case why == "":
		return ""
	case bytes.Contains([]byte(why), []byte("set header")):
		return "set-id"
	case bytes.Contains([]byte(why), []byte("IPv6")):
		return "addr-family"
	case bytes.Contains([]byte(why), []byte("octet")):
		return "fixed-length"
	case bytes.Contains([]byte(why), []byte("shorter than the shortest")):
		return "short-record"
	case bytes.Contains([]byte(why), []byte("count")):
		return "field-count"
	case bytes.Contains([]byte(why), []byte("bytes")):
		return "oversize"
	case bytes.Contains([]byte(why), []byte("template")):
		return "template"
	}
	return "other"
}

func (s *expSession) isClosedErr(c callRec) bool  { return false }
func (s *expSession) closedBefore(c callRec) bool { return s.closed && !c.T1.Before(s.closeAt) }

var _ = binary.BigEndian
