package harness

import (
	"github.com/vmware/go-ipfix/pkg/collector"
	"math/rand/v2"
	"time"

	"verif/sim/plan"
)

// C02 — everything the exporter puts on the wire is well-formed RFC 7011 for a
// decoder that shares no code with the library (oracle/ipfixref), including
// messages produced by the background refresher, after failed sends, and
// around Close.

func init() {
	register(&Prop{
		ID: "C02", Gen: genC02, Run: runC02, Quick: 1200, Thorough: 200000,
		Real: []string{"pkg/exporter (SendSet, refresh goroutine, message builder)", "pkg/entities (set/record/message builders, value encoder, MakeTemplateSet)", "pkg/registry (incl. PutInfoElement for user-registered elements)"},
		Stub: []string{"OS sockets (simnet)", "wall clock (synctest bubble)"},
		Rule: "sessions over tcp/udp with templates of 1-40 elements from the whole registry plus user-registered elements, all three add paths, boundary and random values, refresh bursts, failed sends in between; a twelfth of the plans run two exporting processes at the same time after a third was closed twice; every Write/datagram is parsed by oracle/ipfixref and compared with what was handed; non-trivial = at least 2 data messages on the wire; distinct = distinct event-log hash",
	})
}

func genC02(seed uint64, tier string) *plan.Plan {
	initC09Index()
	r := rand.New(rand.NewPCG(seed, 0xc02))
	pl := &plan.Plan{Cfg: map[string]int64{}}
	if r.IntN(12) == 0 {
		genTwoExporters(r, pl)
		return pl
	}
	udp := r.IntN(2) == 1
	if udp {
		pl.Cfg["proto"] = 1
		pl.Cfg["refresh"] = []int64{1, 3, 60, 600}[r.IntN(4)]
	}
	pl.Cfg["domain"] = int64(r.Uint32())
	pl.Cfg["v6"] = int64(r.IntN(2))
	refresh := time.Duration(pl.Cfg["refresh"]) * time.Second
	nT := 1 + r.IntN(3)
	nT0 := nT // the templates announced first (later ones may not exist when an inserted op runs)
	sizes := make([]int, nT)
	for i := 0; i < nT; i++ {
		n := 1 + r.IntN(8)
		if r.IntN(4) == 0 {
			n = 1 + r.IntN(40)
		}
		sizes[i] = n
		pl.Ops = append(pl.Ops, plan.Op{K: "tmpl", A: int64(i), N: pickElems(r, n, true)})
	}
	nOps := 4 + r.IntN(16)
	if tier == "thorough" {
		nOps = 4 + r.IntN(60)
	}
	for i := 0; i < nOps; i++ {
		switch x := r.IntN(12); {
		case x < 7:
			slot := r.IntN(nT)
			maxVar := []int64{0, 10, 254, 255, 256, 300, 2000, 65535}[r.IntN(8)]
			nrec := 1 + r.IntN(6)
			if maxVar > 300 || sizes[slot] > 12 {
				nrec = 1 + r.IntN(2)
			}
			pl.Ops = append(pl.Ops, plan.Op{K: "data", A: int64(slot), B: int64(nrec), C: int64(r.Uint64() >> 1), D: maxVar, S: []string{"", "extra", "v2"}[r.IntN(3)]})
			if r.IntN(8) == 0 {
				pl.Ops = append(pl.Ops[:len(pl.Ops)-1], plan.Op{K: "emptyprep", A: int64(r.IntN(nT))}, pl.Ops[len(pl.Ops)-1])
			}
			if r.IntN(8) == 0 {
				// the Set as it stands is sent once more (after another PrepareSet with the same arguments, or not)
				pl.Ops = append(pl.Ops, plan.Op{K: "resend", S: []string{"", "prep", "grow"}[r.IntN(3)], C: int64(r.Uint64() >> 1)})
			}
			if r.IntN(12) == 0 {
				pl.Ops = append(pl.Ops, plan.Op{K: "tmplagain", A: int64(r.IntN(nT))})
			}
		case x < 9:
			d := time.Duration(r.IntN(1500)) * time.Millisecond
			if udp && r.IntN(2) == 0 {
				d = refresh + time.Duration(r.IntN(3)-1)*time.Nanosecond
			}
			if d < 0 {
				d = 0
			}
			pl.Ops = append(pl.Ops, plan.Op{K: "adv", A: int64(d)})
		case x < 10 && !udp && r.IntN(3) == 0 && len(idxVarString) > 0:
			// a message sized around the 65535 limit (needs a template with a variable-length element)
			slot := nT
			if nT < 6 {
				pl.Ops = append(pl.Ops, plan.Op{K: "tmpl", A: int64(slot), N: []int64{idxVarString[r.IntN(len(idxVarString))], idxSmall[r.IntN(len(idxSmall))]}})
				sizes = append(sizes, 2)
				nT++
				op := plan.Op{K: "data", A: int64(slot), B: 1, C: int64(r.Uint64() >> 1), D: 20}
				op.F = []plan.Op{{K: "size", A: int64(65519 + r.IntN(22))}}
				pl.Ops = append(pl.Ops, op)
			}
		case x < 10:
			pl.Ops = append(pl.Ops, plan.Op{K: "dataunk", A: int64(9 + r.IntN(3)), B: int64(r.IntN(nT+1) - 1), C: int64(r.Uint64() >> 1)})
		case x < 11:
			op := plan.Op{K: "data", A: int64(r.IntN(nT)), B: int64(1 + r.IntN(4)), C: int64(r.Uint64() >> 1), D: 20}
			// the wrong field count in every record of the set, or in one of them (first, middle, last)
			op.F = []plan.Op{{K: "count", A: int64(1 + r.IntN(2)), B: int64(r.IntN(5))}}
			pl.Ops = append(pl.Ops, op)
		default:
			if nT < 5 && r.IntN(3) == 0 {
				pl.Ops = append(pl.Ops, plan.Op{K: "lazytmpl", A: int64(nT), N: pickElems(r, 1+r.IntN(10), true), C: int64(r.Uint64() >> 1)})
				sizes = append(sizes, 10)
				nT++
			} else if nT < 5 {
				pl.Ops = append(pl.Ops, plan.Op{K: "tmpl", A: int64(nT), N: pickElems(r, 1+r.IntN(10), true)})
				sizes = append(sizes, 10)
				nT++
			}
		}
	}
	if !udp && r.IntN(3) == 0 {
		// a slow collector: small receive window, stall periods, and a short connection-check
		// interval so that the check fires while a write is blocked
		pl.Cfg["window"] = []int64{512, 2048, 8192, 32768}[r.IntN(4)]
		pl.Cfg["check_ms"] = []int64{1, 3, 10, 50}[r.IntN(4)]
		for i := 1 + r.IntN(3); i > 0; i-- {
			pl.Ops = append(pl.Ops, plan.Op{K: "peerstall", A: int64(r.IntN(400)), B: int64(5 + r.IntN(300))})
		}
		// ... and stalls that begin just before a send, so that the send is the one that blocks
		var ops []plan.Op
		for _, op := range pl.Ops {
			if op.K == "data" && r.IntN(4) == 0 {
				ops = append(ops, plan.Op{K: "stallnow", B: int64(5 + r.IntN(300))})
			}
			ops = append(ops, op)
		}
		pl.Ops = ops
	}
	if r.IntN(6) == 0 {
		// a collecting process in the same program has just been sent, by some other vendor's exporter,
		// a template that announces fixed lengths for variable-length elements (see c01.go)
		pl.Cfg["foreign"] = int64(1 + r.IntN(3))
	}
	if udp {
		// Transient write errors in mid-session (a datagram socket reports a refused destination on a
		// later write and stays usable): nothing of the failed call reaches the wire, and whatever is
		// sent afterwards is a well-formed message of its own. A stream of its own keeps older plans as they were.
		r2 := rand.New(rand.NewPCG(seed, 0xc02f))
		if r2.IntN(3) == 0 {
			for k := 1 + r2.IntN(3); k > 0; k-- {
				at := nT0 + r2.IntN(len(pl.Ops)-nT0+1)
				op := plan.Op{K: "data", A: int64(r2.IntN(nT0)), B: int64(1 + r2.IntN(5)), C: int64(r2.Uint64() >> 1), D: []int64{0, 20, 300}[r2.IntN(3)]}
				if r2.IntN(3) == 0 {
					op = plan.Op{K: "tmplagain", A: int64(r2.IntN(nT0))}
				}
				ins := []plan.Op{{K: "wfault", A: 3}, op, {K: "data", A: int64(r2.IntN(nT0)), B: int64(1 + r2.IntN(3)), C: int64(r2.Uint64() >> 1), D: 20}}
				pl.Ops = append(pl.Ops[:at], append(ins, pl.Ops[at:]...)...)
			}
		}
	}
	genSchedule(r, pl, 2, 60*len(pl.Ops))
	return pl
}

func runC02(pl *plan.Plan, out *plan.Outcome) {
	if cfgOr(pl, "two", 0) == 1 {
		runTwoExporters(pl, out, func(s *expSession) { s.checkWire("C02") })
		return
	}
	env := newEnv(pl, out, keepLogFlag)
	var sess *expSession
	env.Go("app", func() {
		if fl := cfgOr(pl, "foreign", 0); fl > 0 {
			if tmsg, dmsg := foreignMessages(pl, fl); tmsg != nil {
				if cp, err := collector.InitCollectingProcess(collector.CollectorInput{Address: "10.0.0.9:4739", Protocol: "udp", MaxBufferSize: 65535, TemplateTTL: 7200}); err == nil {
					env.Count("fault.foreign_exporter_with_fixed_length_strings", 1)
					env.Go("drain", func() {
						for {
							var ok bool
							Block("consume", func() { _, ok = <-cp.GetMsgChan() })
							if !ok {
								return
							}
						}
					})
					Block("decode", func() { cp.VerifDecodePacket(tmsg, "10.0.3.1:999") })
					Block("decode", func() { cp.VerifDecodePacket(dmsg, "10.0.3.1:999") })
					cp.CloseMsgChan()
				}
			}
		}
		s, err := newExpSession(env)
		if err != nil {
			out.Trouble = "exporter init failed: " + err.Error()
			return
		}
		sess = s
		s.runOps(pl.Ops)
		s.closeExporter()
	})
	if res := env.Run(); res != "done" && out.Trouble == "" {
		env.runEnded(res, out)
	}
	if sess == nil {
		return
	}
	sess.checkWire("C02")
	data, tm, bg := 0, 0, 0
	for _, w := range sess.parseWire() {
		if w.Err != nil || len(w.Msg.Sets) != 1 {
			continue
		}
		if w.Msg.Sets[0].ID == 2 {
			tm++
		} else {
			data++
		}
		if w.Call < 0 {
			bg++
		}
	}
	out.Add("c02.data_messages", int64(data))
	out.Add("c02.template_messages", int64(tm))
	out.Add("c02.background_messages", int64(bg))
	for _, c := range sess.calls {
		if c.Expect == "error" {
			out.Add("fault.invalid_attempt."+c.Kind, 1)
		}
		for _, rec := range c.Records {
			for _, w := range rec.Wires {
				switch n := len(w); {
				case n == 254:
					out.Add("probe.var_len_254", 1)
				case n == 255:
					out.Add("probe.var_len_255", 1)
				case n == 256:
					out.Add("probe.var_len_256", 1)
				case n >= 65000:
					out.Add("probe.var_len_ge_65000", 1)
				}
			}
		}
	}
	out.Nontrivial = data >= 2
	out.Sample = map[string]any{"calls": len(sess.calls), "wire": len(sess.wire), "data": data, "templates": tm, "background": bg, "proto": sess.proto}
}
