package harness

import (
	"math/rand/v2"
	"time"

	"verif/sim/plan"
)

// Two exporting processes in one program (C02, C08, C14). Exporter A runs first: a template, data,
// a set that is refused as too large, and CloseConnToCollector twice (both are documented uses).
// Exporters B and C, with their own observation domains and their own TCP collectors, then send at
// the same time from two goroutines of the application; the collectors read slowly (a small receive
// window, stalls), so that one exporter's write is still in progress while the other builds and
// sends its message. Each session is judged on its own, by the property's ordinary oracles: what
// one exporting process does must not depend on another one in the same program.

func genTwoExporters(r *rand.Rand, pl *plan.Plan) {
	pl.Cfg["two"] = 1
	pl.Cfg["proto"] = 0
	pl.Cfg["window"] = []int64{48, 160, 1024}[r.IntN(3)]
	pl.Cfg["check_ms"] = 3600000
	pl.Cfg["domain"] = int64(r.Uint32())
	// A: T=0
	pl.Ops = append(pl.Ops, plan.Op{K: "tmpl", T: 0, A: 0, N: pickElems(r, 1+r.IntN(4), false)},
		plan.Op{K: "data", T: 0, A: 0, B: int64(1 + r.IntN(3)), C: int64(r.Uint64() >> 1), D: 20})
	if r.IntN(4) > 0 {
		// one string element so that the set can be made as large as wanted
		pl.Ops = append(pl.Ops, plan.Op{K: "tmpl", T: 0, A: 1, N: []int64{idxVarString[r.IntN(len(idxVarString))]}},
			plan.Op{K: "data", T: 0, A: 1, B: 2, C: int64(r.Uint64() >> 1), D: 40, F: []plan.Op{{K: "size", A: int64(65536 + r.IntN(40))}}})
	}
	pl.Ops = append(pl.Ops, plan.Op{K: "close", T: 0})
	if r.IntN(4) > 0 {
		pl.Ops = append(pl.Ops, plan.Op{K: "close", T: 0})
	}
	for t := 1; t <= 2; t++ {
		pl.Ops = append(pl.Ops, plan.Op{K: "tmpl", T: t, A: 0, N: pickElems(r, 1+r.IntN(6), false)})
		for i, n := 0, 3+r.IntN(8); i < n; i++ {
			if r.IntN(3) == 0 {
				pl.Ops = append(pl.Ops, plan.Op{K: "stallnow", T: t, B: int64(1 + r.IntN(40))})
			}
			pl.Ops = append(pl.Ops, plan.Op{K: "data", T: t, A: 0, B: int64(1 + r.IntN(3)), C: int64(r.Uint64()>>1) | 1, D: int64(r.IntN(60))})
		}
	}
	genSchedule(r, pl, 8, 6000)
}

// runTwoExporters runs the member and hands every session that sent something to check.
func runTwoExporters(pl *plan.Plan, out *plan.Outcome, check func(s *expSession)) {
	env := newEnv(pl, out, keepLogFlag)
	opsOf := func(t int) []plan.Op {
		var ops []plan.Op
		for _, op := range pl.Ops {
			if op.T == t {
				ops = append(ops, op)
			}
		}
		return ops
	}
	base := uint32(cfgOr(pl, "domain", 1))
	var sess [3]*expSession
	done := make(chan struct{}, 2)
	env.Go("appA", func() {
		s, err := newExpSessionOpts(env, expOpts{addr: "10.0.0.1:4739", domain: base})
		if err != nil {
			out.Trouble = "exporter init failed: " + err.Error()
			return
		}
		sess[0] = s
		s.runOps(opsOf(0))
		env.Count("probe.exporter_closed_before_two_concurrent_ones", 1)
		for t := 1; t <= 2; t++ {
			t := t
			// each session's hooks are installed when it dials: create them one after the other
			s, err := newExpSessionOpts(env, expOpts{addr: []string{"", "10.0.0.2:4739", "10.0.0.3:4739"}[t], domain: base + uint32(t)})
			if err != nil {
				out.Trouble = "exporter init failed: " + err.Error()
				return
			}
			sess[t] = s
			env.Go([]string{"", "appB", "appC"}[t], func() {
				s.runOps(opsOf(t))
				env.Sleep(2 * time.Second)
				s.closeExporter()
				done <- struct{}{}
			})
		}
	})
	if res := env.Run(); res != "done" && out.Trouble == "" {
		env.runEnded(res, out)
	}
	ok := 0
	for _, s := range sess {
		if s == nil {
			continue
		}
		check(s)
		for _, c := range s.calls {
			if c.Err == nil {
				ok++
			}
		}
	}
	out.Add("two_exporters.successful_sends", int64(ok))
	out.Nontrivial = ok >= 6
	out.Sample = map[string]any{"member": "two exporting processes at the same time", "ok": ok}
}
