package harness

import (
	"flag"
	"fmt"
	"io"
	"math/rand/v2"
	"os"
	"regexp"
	"runtime"
	"runtime/debug"
	"strings"
	"sync"
	"testing"
	"testing/synctest"
	"time"

	"k8s.io/klog/v2"

	"github.com/vmware/go-ipfix/pkg/registry"
	"github.com/vmware/go-ipfix/pkg/verifsim/simnet"
	"github.com/vmware/go-ipfix/pkg/verifsim/simrt"

	"verif/sim/plan"
)

// Prop is one property's simulation: a plan generator, a run function (executed
// inside a fresh synctest bubble unless NoBubble) and optional extra shrinking.
type Prop struct {
	ID       string
	Gen      func(seed uint64, tier string) *plan.Plan
	GenRace  func(seed uint64, tier string) *plan.Plan // nil: no race layer
	Run      func(pl *plan.Plan, out *plan.Outcome)
	NoBubble bool
	Extra    func(*plan.Plan) []*plan.Plan
	// Runs per tier (total over all workers) for the sim layer and the race layer.
	Quick, Thorough         int
	RaceQuick, RaceThorough int
	// HangIsViolation: the property's statement is about prompt termination (Stop / Close), so a run
	// of the race layer that stops making progress in real time (a goroutine blocked on a real lock
	// cannot be timed out by the bubble's clock) is a violation, not harness trouble.
	HangIsViolation bool
	// Components, for evidence.
	Real, Stub []string
	Rule       string
}

var props = map[string]*Prop{}

func register(p *Prop) { props[p.ID] = p }

var initOnce sync.Once

func globalInit() {
	initOnce.Do(func() {
		fs := flag.NewFlagSet("klog", flag.ContinueOnError)
		klog.InitFlags(fs)
		fs.Set("logtostderr", "false")
		fs.Set("alsologtostderr", "false")
		fs.Set("stderrthreshold", "FATAL")
		klog.SetOutput(io.Discard)
		registry.LoadRegistry()
		initCatalog()
	})
}

// Env is the per-run environment handed to property code.
type Env struct {
	Plan *plan.Plan
	Out  *plan.Outcome
	Net  *simnet.Net
	Sim  *simrt.Sim // nil in race mode
	Race bool
	Rng  *rand.Rand // only for choices the plan left open; drawn deterministically from plan.Seed

	wg     sync.WaitGroup // race mode task tracking
	mu     sync.Mutex
	t0     time.Time
	result string
}

func newEnv(pl *plan.Plan, out *plan.Outcome, keepLog bool) *Env {
	e := &Env{Plan: pl, Out: out, Race: pl.Mode == "race", t0: time.Now()}
	e.Rng = rand.New(rand.NewPCG(pl.Seed, 0xe17))
	e.Net = simnet.New()
	if !e.Race {
		e.Sim = simrt.New(simrt.Config{
			Seed:        pl.Sched.Seed,
			Choices:     pl.Sched.Choices,
			Preempts:    pl.Sched.Preempts,
			Selects:     pl.Sched.Selects,
			Sticky:      pl.Sched.Sticky,
			UnlockYield: pl.Sched.UnlockYield,
			MaxSteps:    cfgOr(pl, "max_steps", 400_000),
			MaxSyncs:    cfgOr(pl, "max_syncs", 200_000),
			Idle:        time.Duration(cfgOr(pl, "idle_ns", int64(48*time.Hour))),
			KeepLog:     keepLog,
		})
	} else {
		simrt.SetPerturb(pl.Sched.Seed, uint64(cfgOr(pl, "perturb_one_in", 7)))
	}
	return e
}

func cfgOr(pl *plan.Plan, k string, def int64) int64 {
	if v, ok := pl.Cfg[k]; ok {
		return v
	}
	return def
}

// Go starts a harness task. A panic inside the task is recorded: with a
// go-ipfix frame on the stack it is a violation (clause "panic"), otherwise
// harness trouble.
func (e *Env) Go(name string, f func()) {
	wrapped := func() {
		defer func() {
			if r := recover(); r != nil {
				e.panicked(name, r, debug.Stack())
			}
		}()
		f()
	}
	if e.Sim != nil {
		e.Sim.Go(name, wrapped)
		return
	}
	e.wg.Add(1)
	go func() {
		defer e.wg.Done()
		wrapped()
	}()
}

var frameRe = regexp.MustCompile(`github\.com/vmware/go-ipfix/(pkg|cmd)/([A-Za-z0-9_/]+)\.(\S+)`)

// repoFrame returns the innermost go-ipfix (non-verifsim) function on a stack.
func repoFrame(stack []byte) string {
	for _, line := range strings.Split(string(stack), "\n") {
		if strings.HasPrefix(line, "\t") {
			continue
		}
		m := frameRe.FindStringSubmatch(line)
		if m == nil || (strings.HasPrefix(m[2], "verifsim") && !strings.HasPrefix(m[2], "verifsim/cmdcollector")) {
			continue // (verifsim/cmdcollector is cmd/collector's own code under another package name)
		}
		return m[2] + "." + trimArgs(m[3])
	}
	return ""
}

func (e *Env) panicked(task string, r any, stack []byte) {
	e.mu.Lock()
	defer e.mu.Unlock()
	if fr := repoFrame(stack); fr != "" {
		e.Out.Violate(e.Plan.Prop, "panic", fr, "task %s: panic: %v", task, r)
		return
	}
	if e.Out.Trouble == "" {
		e.Out.Trouble = fmt.Sprintf("harness task %s panicked: %v\n%s", task, r, stack)
	}
}

// Violate records a violation (goroutine safe).
func (e *Env) Violate(clause, loc, format string, a ...any) {
	e.mu.Lock()
	e.Out.Violate(e.Plan.Prop, clause, loc, format, a...)
	e.mu.Unlock()
}

// Count adds to a counter (goroutine safe).
func (e *Env) Count(k string, n int64) {
	e.mu.Lock()
	e.Out.Add(k, n)
	e.mu.Unlock()
}

// Logf appends to the event log.
func (e *Env) Logf(format string, a ...any) {
	if e.Sim != nil {
		e.Sim.Logf(format, a...)
	}
}

// Run drives the run to completion and fills in generic outcome fields.
// It returns "done", "stuck", "steplimit" or "synclimit".
func (e *Env) Run() string {
	res := "done"
	if e.Sim != nil {
		res = e.Sim.Run()
		st := e.Sim.Stats
		e.Out.Add("sched.steps", st.Steps)
		e.Out.Add("sched.syncs", st.Syncs)
		e.Out.Add("sched.decisions", st.Decisions)
		e.Out.Add("sched.preemptions_taken", int64(st.Preempted))
		e.Out.Add("sched.tasks", int64(st.Tasks))
		e.Out.Hash = fmt.Sprintf("%016x", e.Sim.Hash())
		e.Out.Choices = e.Sim.ChoicesLog
		e.Out.Selects = e.Sim.SelectLog
		e.Out.Add("sched.select_choices", int64(st.SelectChoices))
		e.Out.Log = e.Sim.Log()
	} else {
		// race layer: no scheduler; a task that never finishes shows as "stuck" after the idle
		// horizon of simulated time (the bubble's clock only moves when everything is blocked)
		done := make(chan struct{})
		go func() { e.wg.Wait(); close(done) }()
		select {
		case <-done:
		case <-time.After(time.Duration(cfgOr(e.Plan, "idle_ns", int64(48*time.Hour)))):
			res = "stuck"
		}
	}
	e.Out.SimNanos = int64(time.Since(e.t0))
	for k, v := range e.Net.Stats.Snapshot() {
		e.Out.Add("net."+k, v)
	}
	e.result = res
	return res
}

// Sleep advances simulated time for the calling task.
func (e *Env) Sleep(d time.Duration) {
	if d <= 0 {
		simrt.Yield("sleep0")
		return
	}
	simrt.Block("sleep", func() { time.Sleep(d) })
}

// Block wraps a blocking harness operation in scheduling points.
func Block(site string, f func()) { simrt.Block(site, f) }

// census returns the stacks of goroutines of the current bubble whose stack
// contains a frame matching the filter. Call from inside the bubble.
func census(filter func(stack string) bool) []string {
	buf := make([]byte, 1<<20)
	for {
		n := runtime.Stack(buf, true)
		if n < len(buf) {
			buf = buf[:n]
			break
		}
		buf = make([]byte, 2*len(buf))
	}
	var out []string
	gs := strings.Split(string(buf), "\n\n")
	// the first goroutine is the caller; find its bubble
	bubble := ""
	if m := regexp.MustCompile(`synctest bubble (\d+)`).FindStringSubmatch(gs[0]); m != nil {
		bubble = "synctest bubble " + m[1]
	}
	for _, g := range gs[1:] {
		head, _, _ := strings.Cut(g, "\n")
		if bubble != "" && !strings.Contains(head, bubble) {
			continue
		}
		if filter(g) {
			out = append(out, g)
		}
	}
	return out
}

// lockedForGood is for a run that cannot go on (every task is blocked, no timer is pending): it
// returns the goroutines of the bubble that wait, in a function of the library, for one of the
// library's locks. A lock is held for a bounded piece of work; a goroutine that still waits for one
// when nothing can happen any more waits for a holder that never releases it.
func lockedForGood() []string {
	return census(func(g string) bool { return lockWaiter(g) != "" })
}

// lockWaiter returns the library function that waits for a lock at the top of the stack g ("": none).
func lockWaiter(g string) string {
	var fns []string
	for _, l := range strings.Split(g, "\n")[1:] {
		if !strings.HasPrefix(l, "\t") && l != "" {
			fns = append(fns, l)
		}
	}
	for i, l := range fns {
		if strings.Contains(l, "simrt.(*Mutex).Lock(") || strings.Contains(l, "simrt.(*RWMutex).Lock(") || strings.Contains(l, "simrt.(*RWMutex).RLock(") {
			if i+1 < len(fns) {
				if m := frameRe.FindStringSubmatch(fns[i+1]); m != nil && (!strings.HasPrefix(m[2], "verifsim") || strings.HasPrefix(m[2], "verifsim/cmdcollector")) {
					return m[2] + "." + trimArgs(m[3])
				}
			}
			return ""
		}
	}
	return ""
}

// runEnded records a run that did not come to its end. "stuck" with goroutines of the library
// waiting for the library's own locks is a deadlock in the code under test and a violation of
// whatever the property promises about the calls that never return; anything else is trouble of
// the harness (exit 2), never a verdict.
func (e *Env) runEnded(res string, out *plan.Outcome) {
	if res == "stuck" && e.Sim != nil {
		if gs := lockedForGood(); len(gs) > 0 {
			e.Violate("deadlock", lockWaiter(gs[0]), "the run cannot go on (every task is blocked and no timer is pending) while %d goroutines wait for a lock of the library that is never released, e.g. %s", len(gs), oneLineStack(gs[0]))
			out.Hash = fmt.Sprintf("%s-stuck", out.Hash)
			return
		}
	}
	out.Trouble = "run ended: " + res
}

// execute runs one plan in a fresh bubble (or directly) and returns its outcome.
func execute(t *testing.T, p *Prop, pl *plan.Plan, keepLog bool) (out *plan.Outcome) {
	out = &plan.Outcome{Counters: map[string]int64{}}
	defer func() {
		if r := recover(); r != nil {
			msg := fmt.Sprint(r)
			if strings.Contains(msg, "blocked goroutines remain") || strings.Contains(msg, "deadlock") {
				// goroutines left behind when the bubble's root returned
				out.Add("bubble.leftover_goroutines", 1)
				if os.Getenv("VERIF_DEBUG") != "" {
					buf := make([]byte, 1<<20)
					n := runtime.Stack(buf, true)
					os.Stderr.Write(buf[:n])
				}
				if out.Trouble == "" && len(out.Violations) == 0 {
					out.Trouble = "bubble ended with blocked goroutines: " + msg
				}
				return
			}
			st := debug.Stack()
			if fr := repoFrame(st); fr != "" {
				out.Violate(pl.Prop, "panic", fr, "panic: %v", r)
				return
			}
			out.Trouble = fmt.Sprintf("harness panic: %v\n%s", r, st)
		}
	}()
	keepLogFlag = keepLog
	switch pl.Mode {
	case "plain":
		simrt.SetMode(simrt.ModeOff)
	case "race":
		simrt.SetMode(simrt.ModeRace)
	default:
		simrt.SetMode(simrt.ModeSim)
	}
	if p.NoBubble || pl.Mode == "plain" {
		p.Run(pl, out)
		return out
	}
	synctest.Test(t, func(t *testing.T) {
		p.Run(pl, out)
	})
	return out
}

var keepLogFlag bool

// trimArgs cuts the argument list off a function name taken from a stack trace.
func trimArgs(fn string) string {
	if i := strings.LastIndex(fn, "("); i > 0 {
		fn = fn[:i]
	}
	return strings.TrimSuffix(fn, "(...)")
}

func simrtGoID() uint64 { return simrt.GoID() }
