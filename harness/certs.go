package harness

import (
	"crypto/ecdsa"
	"crypto/elliptic"
	"crypto/rand"
	"crypto/x509"
	"crypto/x509/pkix"
	"encoding/pem"
	"math/big"
	"net"
	"sync"
	"time"
)

// Certificates for TLS/DTLS simulations. Validity windows are explicit instants
// relative to the bubble's epoch (2000-01-01 UTC), never the real clock, so the
// same zoo is valid in every bubble and can be built once per process.

var bubbleEpoch = time.Date(2000, 1, 1, 0, 0, 0, 0, time.UTC)

type certPair struct {
	CertPEM, KeyPEM []byte
	IssuerPEM       []byte // the issuing CA's certificate (nil for a self-signed leaf)
}

// serverPEM is what a collector is configured with as its certificate: the leaf alone, or - as server
// operators usually deploy it - the leaf followed by its issuing CA.
func (c certPair) serverPEM(bundle bool) []byte {
	if !bundle || c.IssuerPEM == nil {
		return c.CertPEM
	}
	return append(append([]byte(nil), c.CertPEM...), c.IssuerPEM...)
}

type caT struct {
	cert *x509.Certificate
	key  *ecdsa.PrivateKey
	PEM  []byte
}

var serial int64 = 1000

func newCA(cn string, notBefore, notAfter time.Time) *caT {
	key, err := ecdsa.GenerateKey(elliptic.P256(), rand.Reader)
	if err != nil {
		panic(err)
	}
	serial++
	tmpl := &x509.Certificate{
		SerialNumber: big.NewInt(serial), Subject: pkix.Name{CommonName: cn},
		NotBefore: notBefore, NotAfter: notAfter,
		KeyUsage: x509.KeyUsageCertSign | x509.KeyUsageDigitalSignature, BasicConstraintsValid: true, IsCA: true,
	}
	der, err := x509.CreateCertificate(rand.Reader, tmpl, tmpl, &key.PublicKey, key)
	if err != nil {
		panic(err)
	}
	c, _ := x509.ParseCertificate(der)
	return &caT{cert: c, key: key, PEM: pem.EncodeToMemory(&pem.Block{Type: "CERTIFICATE", Bytes: der})}
}

type leafOpts struct {
	cn        string
	dns       []string
	ips       []net.IP
	client    bool
	notBefore time.Time
	notAfter  time.Time
	selfSign  bool
}

func (ca *caT) leaf(o leafOpts) certPair {
	key, err := ecdsa.GenerateKey(elliptic.P256(), rand.Reader)
	if err != nil {
		panic(err)
	}
	serial++
	tmpl := &x509.Certificate{
		SerialNumber: big.NewInt(serial), Subject: pkix.Name{CommonName: o.cn},
		NotBefore: o.notBefore, NotAfter: o.notAfter,
		KeyUsage:    x509.KeyUsageDigitalSignature,
		ExtKeyUsage: []x509.ExtKeyUsage{x509.ExtKeyUsageServerAuth},
		DNSNames:    o.dns, IPAddresses: o.ips,
	}
	if o.client {
		tmpl.ExtKeyUsage = []x509.ExtKeyUsage{x509.ExtKeyUsageClientAuth}
	}
	parent, pkey := ca.cert, ca.key
	if o.selfSign {
		parent, pkey = tmpl, key
	}
	der, err := x509.CreateCertificate(rand.Reader, tmpl, parent, &key.PublicKey, pkey)
	if err != nil {
		panic(err)
	}
	kb, err := x509.MarshalECPrivateKey(key)
	if err != nil {
		panic(err)
	}
	cp := certPair{
		CertPEM: pem.EncodeToMemory(&pem.Block{Type: "CERTIFICATE", Bytes: der}),
		KeyPEM:  pem.EncodeToMemory(&pem.Block{Type: "EC PRIVATE KEY", Bytes: kb}),
	}
	if !o.selfSign {
		cp.IssuerPEM = ca.PEM
	}
	return cp
}

// zoo is the certificate set shared by C01 and C18.
type zoo struct {
	CA, OtherCA *caT
	// server certificates
	SrvGood, SrvOtherCA, SrvSelf, SrvExpired, SrvFuture, SrvWrongSAN, SrvNoSAN, SrvNameOnly certPair
	// for a collector that is reached by host name ("localhost" -> 127.0.0.1)
	SrvLoopIPOnly, SrvLoopNameOnly, SrvLoopBoth certPair
	// a home-made certificate for every name and address an exporter may expect and no certificate
	// of the zoo lists: somebody's attempt to talk a verifier into looking at the wrong certificate
	Decoy certPair
	// client certificates
	CliGood, CliOtherCA, CliExpired certPair
}

var (
	zooOnce sync.Once
	theZoo  *zoo
)

const serverDNSName = "collector.example"

func getZoo() *zoo {
	zooOnce.Do(func() {
		long0, long1 := bubbleEpoch.AddDate(-1, 0, 0), bubbleEpoch.AddDate(50, 0, 0)
		z := &zoo{CA: newCA("verif-ca", long0, long1), OtherCA: newCA("verif-other-ca", long0, long1)}
		ips := []net.IP{net.ParseIP("10.0.0.1"), net.ParseIP("fd00::1")}
		z.SrvGood = z.CA.leaf(leafOpts{cn: "srv", dns: []string{serverDNSName}, ips: ips, notBefore: long0, notAfter: long1})
		z.SrvNameOnly = z.CA.leaf(leafOpts{cn: "srv", dns: []string{serverDNSName}, notBefore: long0, notAfter: long1})
		z.SrvOtherCA = z.OtherCA.leaf(leafOpts{cn: "srv", dns: []string{serverDNSName}, ips: ips, notBefore: long0, notAfter: long1})
		z.SrvSelf = z.CA.leaf(leafOpts{cn: "srv", dns: []string{serverDNSName}, ips: ips, notBefore: long0, notAfter: long1, selfSign: true})
		// valid only during the bubble's days 10..20
		z.SrvExpired = z.CA.leaf(leafOpts{cn: "srv", dns: []string{serverDNSName}, ips: ips, notBefore: long0, notAfter: bubbleEpoch.AddDate(0, 0, 20)})
		z.SrvFuture = z.CA.leaf(leafOpts{cn: "srv", dns: []string{serverDNSName}, ips: ips, notBefore: bubbleEpoch.AddDate(0, 0, 10), notAfter: long1})
		z.SrvWrongSAN = z.CA.leaf(leafOpts{cn: "srv", dns: []string{"other.example"}, ips: []net.IP{net.ParseIP("10.9.9.9")}, notBefore: long0, notAfter: long1})
		z.Decoy = z.CA.leaf(leafOpts{cn: "srv", dns: []string{"wrong.example"}, ips: []net.IP{net.ParseIP("10.10.10.10"), net.ParseIP("fd00::99")}, notBefore: long0, notAfter: long1, selfSign: true})
		loop := []net.IP{net.ParseIP("127.0.0.1")}
		z.SrvLoopIPOnly = z.CA.leaf(leafOpts{cn: "srv", ips: loop, notBefore: long0, notAfter: long1})
		z.SrvLoopNameOnly = z.CA.leaf(leafOpts{cn: "srv", dns: []string{"localhost"}, notBefore: long0, notAfter: long1})
		z.SrvLoopBoth = z.CA.leaf(leafOpts{cn: "srv", dns: []string{"localhost"}, ips: loop, notBefore: long0, notAfter: long1})
		z.SrvNoSAN = z.CA.leaf(leafOpts{cn: serverDNSName, notBefore: long0, notAfter: long1})
		z.CliGood = z.CA.leaf(leafOpts{cn: "cli", client: true, notBefore: long0, notAfter: long1})
		z.CliOtherCA = z.OtherCA.leaf(leafOpts{cn: "cli", client: true, notBefore: long0, notAfter: long1})
		z.CliExpired = z.CA.leaf(leafOpts{cn: "cli", client: true, notBefore: long0, notAfter: bubbleEpoch.AddDate(0, 0, 20)})
		theZoo = z
	})
	return theZoo
}
