package harness

import (
	"fmt"
	"sort"
	"time"
)

// aggModel is a sequential reference model of the flow-aggregation process,
// written from the statements of C05 (arithmetic), C06 (expiry) and C07
// (correlation). It imports nothing from the library. It is also the
// sequential specification handed to porcupine for C13.

// node roles of a reporting record
const (
	nodeSrc    = 0
	nodeDst    = 1
	nodeSingle = 2 // flow that needs no correlation: one reporting stream
)

// flow categories (fixed per 5-tuple in generated plans)
const (
	catIntra        = 0 // intra-node
	catToExternal   = 1
	catInter        = 2 // inter-node, needs correlation
	catEgressDeny   = 3 // inter-node, denied at egress: reported by the source node only
	catIngressRej   = 4 // inter-node, rejected at ingress: reported by the destination node only
	catInterIngDrop = 5 // inter-node, dropped at ingress: still needs correlation
)

func catNeedsCorrelation(c int) bool { return c == catInter || c == catInterIngDrop }

var corrFieldNames = []string{
	"sourcePodName", "sourcePodNamespace", "sourceNodeName", "destinationPodName", "destinationPodNamespace", "destinationNodeName",
	"destinationClusterIP", "destinationServicePort", "ingressNetworkPolicyRuleAction", "egressNetworkPolicyRuleAction", "ingressNetworkPolicyRulePriority",
}

// aggRec is one incoming data record in plan terms.
type aggRec struct {
	Key   int
	Node  int
	Cat   int
	Start uint32
	End   uint32
	// totals: packet, octet, reverse packet, reverse octet
	Tot [4]uint64
	// deltas: packet, reverse packet
	Delta    [2]uint64
	HTTP     string // httpVals text (not part of any checked clause)
	TCPState string
	Corr     map[string]string // correlate fields, "" / "0" = empty
	// Layout: the order in which the exporter that sent this record lists the elements (records are
	// looked at by element name; two exporters, or one exporter after a template change, need not agree)
	Layout int
	// Unres: a record of the source node that names no Pod at all (the node could not resolve the
	// source Pod). The process tells the reporting node from the Pod names, so for such a record only
	// one statement is unambiguous: it and a record of the destination node are the two sides.
	Unres bool
}

type nodeAgg struct {
	Seen  bool
	End   uint32
	Tot   [4]uint64
	Delta [2]uint64
	Thr   [2]uint64
}

type aggFlow struct {
	Key int
	Cat int
	End uint32
	N   [2]nodeAgg
	Tot [4]uint64 // common totals
	Dlt [2]uint64 // common deltas
	Thr [2]uint64 // common throughput
	TCP string
	// Ambig: the latest end time was reported by both nodes (tie): the common delta,
	// throughput and tcpState may follow either of them.
	Ambig bool
	Ready bool
	// Filled: correlated fields are marked filled
	Filled   bool
	Retries  int
	Active   time.Time
	Inactive time.Time
	// Corr: acceptable values per correlate field (nil = not checked)
	Corr map[string][]string
	// Fuzzy: retry bookkeeping is not known exactly (see scan)
	Fuzzy bool
}

func (f *aggFlow) minDeadline() time.Time {
	if f.Active.Before(f.Inactive) {
		return f.Active
	}
	return f.Inactive
}

func (f *aggFlow) clone() *aggFlow {
	g := *f
	if f.Corr != nil {
		g.Corr = map[string][]string{}
		for k, v := range f.Corr {
			g.Corr[k] = append([]string(nil), v...)
		}
	}
	return &g
}

type aggModel struct {
	Active, Inactive time.Duration
	MaxRetries       int
	Flows            map[int]*aggFlow
}

func newAggModel(active, inactive time.Duration, maxRetries int) *aggModel {
	return &aggModel{Active: active, Inactive: inactive, MaxRetries: maxRetries, Flows: map[int]*aggFlow{}}
}

func (m *aggModel) clone() *aggModel {
	c := &aggModel{Active: m.Active, Inactive: m.Inactive, MaxRetries: m.MaxRetries, Flows: map[int]*aggFlow{}}
	for k, f := range m.Flows {
		c.Flows[k] = f.clone()
	}
	return c
}

func thr(totalDiff uint64, dt uint32) uint64 {
	if dt == 0 {
		return 0
	}
	return totalDiff * 8 / uint64(dt)
}

func nonEmpty(v string) bool { return v != "" && v != "0" && v != "0.0.0.0" && v != "::" }

// ingest applies one record at time now. It returns false when the record
// violates the exporter contract the statement assumes (and is then ignored by
// the model; generated plans do not contain such records).
func (m *aggModel) ingest(r aggRec, now time.Time) bool {
	if r.End <= r.Start {
		return false
	}
	f := m.Flows[r.Key]
	if r.Unres && f != nil && !f.Ready && f.N[r.Node].Seen {
		// a second nameless record before the other side was seen: whether those two are "both sides"
		// cannot be told from the records, and the statement does not say (treated like a record
		// outside the contract: not sent)
		return false
	}
	nodes := []int{r.Node}
	if r.Node == nodeSingle {
		nodes = []int{nodeSrc, nodeDst}
	}
	if f == nil {
		f = &aggFlow{Key: r.Key, Cat: r.Cat, End: r.End, Tot: r.Tot, Dlt: r.Delta, TCP: r.TCPState}
		t := [2]uint64{thr(r.Tot[1], r.End-r.Start), thr(r.Tot[3], r.End-r.Start)}
		f.Thr = t
		for _, n := range nodes {
			f.N[n] = nodeAgg{Seen: true, End: r.End, Tot: r.Tot, Delta: r.Delta, Thr: t}
		}
		f.Active = now.Add(m.Active)
		f.Inactive = now.Add(m.Inactive)
		if !catNeedsCorrelation(r.Cat) {
			f.Ready = true
			f.Filled = r.Cat == catIntra || r.Cat == catToExternal
		} else {
			f.Corr = map[string][]string{}
			for k, v := range r.Corr {
				f.Corr[k] = []string{v}
			}
		}
		m.Flows[r.Key] = f
		return true
	}
	for _, n := range nodes {
		if f.N[n].Seen && r.End <= f.N[n].End {
			return false // not newer than the node's previous record: outside the contract
		}
	}
	// correlation: first record from the other node
	if catNeedsCorrelation(f.Cat) && !f.Ready && r.Node != nodeSingle && !f.N[r.Node].Seen {
		for k, v := range r.Corr {
			old := f.Corr[k]
			switch {
			case nonEmpty(v) && len(old) == 1 && nonEmpty(old[0]) && old[0] != v:
				f.Corr[k] = []string{old[0], v} // both sides have a value: either is acceptable
			case nonEmpty(v):
				f.Corr[k] = []string{v}
			}
		}
		f.Ready = true
		f.Filled = true
	}
	latest := r.End > f.End
	tie := r.End == f.End
	if latest {
		f.End = r.End
	}
	var t [2]uint64
	for _, n := range nodes {
		ns := &f.N[n]
		var dt uint32
		var d1, d3 uint64
		if ns.Seen {
			dt = r.End - ns.End
			d1, d3 = r.Tot[1]-ns.Tot[1], r.Tot[3]-ns.Tot[3]
		} else {
			dt = r.End - r.Start
			d1, d3 = r.Tot[1], r.Tot[3]
		}
		t = [2]uint64{thr(d1, dt), thr(d3, dt)}
		ns.Seen = true
		ns.End = r.End
		ns.Tot = r.Tot
		ns.Delta[0] += r.Delta[0]
		ns.Delta[1] += r.Delta[1]
		ns.Thr = t
	}
	if latest || tie {
		last := nodes[len(nodes)-1]
		if tie && r.Node != nodeSingle {
			f.Ambig = true
		} else if latest {
			f.Ambig = false
		}
		f.Tot = r.Tot // each total counter's latest value
		f.Dlt = f.N[last].Delta
		f.Thr = t
		f.TCP = r.TCPState
	}
	f.Inactive = now.Add(m.Inactive)
	return true
}

// reset clears delta and throughput fields of a flow (what the application does
// after exporting a record).
func (m *aggModel) reset(key int) {
	f := m.Flows[key]
	if f == nil {
		return
	}
	f.Dlt, f.Thr = [2]uint64{}, [2]uint64{}
	for n := range f.N {
		f.N[n].Delta, f.N[n].Thr = [2]uint64{}, [2]uint64{}
	}
}

// dueKeys returns the keys whose earliest deadline has strictly passed at now,
// earliest first, and those whose earliest deadline is exactly now.
func (m *aggModel) dueKeys(now time.Time) (strict []int, exact []int) {
	var keys []int
	for k := range m.Flows {
		keys = append(keys, k)
	}
	sort.Slice(keys, func(i, j int) bool {
		a, b := m.Flows[keys[i]].minDeadline(), m.Flows[keys[j]].minDeadline()
		if !a.Equal(b) {
			return a.Before(b)
		}
		return keys[i] < keys[j]
	})
	for _, k := range keys {
		d := m.Flows[k].minDeadline()
		switch {
		case d.Before(now):
			strict = append(strict, k)
		case d.Equal(now):
			exact = append(exact, k)
		}
	}
	return
}

// nextExpiry returns the earliest deadline (ok=false when there is no flow).
func (m *aggModel) nextExpiry() (time.Time, bool) {
	var best time.Time
	ok := false
	for _, f := range m.Flows {
		d := f.minDeadline()
		if !ok || d.Before(best) {
			best, ok = d, true
		}
	}
	return best, ok
}

func (f *aggFlow) String() string {
	return fmt.Sprintf("flow{key=%d cat=%d end=%d ready=%v retries=%d active=+%v inactive=+%v}", f.Key, f.Cat, f.End, f.Ready, f.Retries, f.Active.Sub(bubbleEpoch), f.Inactive.Sub(bubbleEpoch))
}

// sortedKeys: the flows' keys in ascending order (oracles report in a fixed order).
func (m *aggModel) sortedKeys() []int {
	ks := make([]int, 0, len(m.Flows))
	for k := range m.Flows {
		ks = append(ks, k)
	}
	sort.Ints(ks)
	return ks
}
