package harness

import (
	"crypto/tls"
	"crypto/x509"
	"encoding/binary"
	"fmt"
	"math/rand/v2"
	"net"
	"strings"
	"time"

	"github.com/vmware/go-ipfix/pkg/collector"
	"github.com/vmware/go-ipfix/pkg/entities"
	"github.com/vmware/go-ipfix/pkg/verifsim/simnet"
	"github.com/vmware/go-ipfix/pkg/verifsim/simrt"

	"verif/oracle/ipfixref"
	"verif/sim/plan"
)

// C12 — collector under many clients: exactly-once, in order, clean shutdown.
//
// Plan: Cfg transport (0 tcp, 1 udp, 2 tls), clients, stop_ms (when Stop is called; 0: after all
// clients are done), stall ops for the consumer. Ops:
//   client  T=client A=connect delay (ms) B=messages C=records per message D=gap between messages (us)
//           S: "close" orderly close at the end, "abort" abrupt close in the middle of the last message,
//              "stay" keep the connection open until Stop
//   stall   A=start (ms) B=duration (ms): the consumer does not receive during that period

func init() {
	register(&Prop{
		ID: "C12", HangIsViolation: true, Gen: genC12, GenRace: genC12, Run: runC12, Quick: 1500, Thorough: 200000, RaceQuick: 200, RaceThorough: 10000,
		Real: []string{"pkg/collector: Start, TCP/TLS accept loop and per-connection reader goroutines, UDP socket reader and per-client goroutines, message channel, client table, Stop / WaitGroup shutdown", "crypto/tls on the TLS member"},
		Stub: []string{"OS sockets (simnet)", "wall clock (synctest bubble)", "goroutine scheduling (sim layer: seeded baton scheduler with preemptions; race layer: Go scheduler with seeded perturbation under the race detector)"},
		Rule: "1-8 clients with their own template id and numbered records over tcp / udp / tls, seeded connect / send / close timings incl. abrupt close mid-message, templates repeated in mid-stream, a client whose connection is reset and that reconnects from the same address and port, a consumer that stalls for seeded periods, Stop at a seeded instant during traffic; per-connection order / exactly-once, connection count, Stop latency, goroutine and socket census; non-trivial = at least 2 clients and 4 messages delivered; distinct = distinct event-log hash (sim) or plan seed (race)",
	})
}

func genC12(seed uint64, tier string) *plan.Plan {
	r := rand.New(rand.NewPCG(seed, 0xc12))
	pl := &plan.Plan{Cfg: map[string]int64{}}
	pl.Cfg["transport"] = int64(r.IntN(3))
	if pl.Cfg["transport"] == 2 && r.IntN(8) == 0 {
		pl.Cfg["badtls"] = 1
	}
	if r.IntN(3) == 0 {
		// exporters of several vendors: every client's template ends in elements of its own that the
		// collector (configured to drop what it does not know) has never seen
		pl.Cfg["unk"] = int64(1 + r.IntN(40))
	}
	nc := 1 + r.IntN(8)
	pl.Cfg["clients"] = int64(nc)
	horizon := int64(0)
	for c := 0; c < nc; c++ {
		op := plan.Op{K: "client", T: c, A: int64(r.IntN(50)), B: int64(1 + r.IntN(8)), C: int64(1 + r.IntN(3)), D: int64(r.IntN(20000)),
			S: []string{"close", "close", "abort", "stay", "mute", "badhello", "trickle"}[r.IntN(7)]}
		if r.IntN(3) == 0 {
			op.D = 0 // burst
		}
		if pl.Cfg["unk"] > 0 && c > 0 && r.IntN(2) == 0 {
			op.A = pl.Ops[0].A // connect at the same instant as the first client
		}
		pl.Ops = append(pl.Ops, op)
		if end := op.A + op.B*op.D/1000 + 5; end > horizon {
			horizon = end
		}
	}
	for i := r.IntN(4); i > 0; i-- {
		pl.Ops = append(pl.Ops, plan.Op{K: "stall", A: int64(r.IntN(int(horizon + 10))), B: int64(1 + r.IntN(200))})
	}
	switch r.IntN(3) {
	case 0:
		pl.Cfg["stop_ms"] = 0
	default:
		pl.Cfg["stop_ms"] = int64(1 + r.IntN(int(horizon+20)))
	}
	if pl.Cfg["transport"] != 1 && r.IntN(4) == 0 {
		// Stop under backlog: clients have pipelined many messages, the consumer is stalled so that
		// the collector holds messages it has read but not yet delivered, and Stop arrives during the
		// stall; the consumer then drains. Whatever is delivered per connection is a gap-free prefix.
		pl.Ops = pl.Ops[:0]
		nc = 1 + r.IntN(3)
		pl.Cfg["clients"] = int64(nc)
		for c := 0; c < nc; c++ {
			pl.Ops = append(pl.Ops, plan.Op{K: "client", T: c, A: int64(r.IntN(5)), B: int64(8 + r.IntN(40)), C: int64(1 + r.IntN(3)), D: 0, S: []string{"close", "stay"}[r.IntN(2)]})
		}
		from := int64(r.IntN(8))
		length := int64(20 + r.IntN(200))
		pl.Ops = append(pl.Ops, plan.Op{K: "stall", A: from, B: length})
		pl.Cfg["stop_ms"] = from + 1 + r.Int64N(length)
		if r.IntN(2) == 0 {
			// ... or at the very instant the consumer resumes: Stop races with the drain (simulated
			// time does not move while the backlog drains, so only the scheduler orders the two)
			pl.Cfg["stop_ms"] = from + length
		}
	}
	if pl.Cfg["transport"] == 0 && r.IntN(5) == 0 {
		// A peer whose connection is reset while the collector still holds messages of it, and which
		// connects again at once from the same address and port: whatever the collector still has to do
		// for the dead connection, the new one is a session of its own.
		pl.Ops = pl.Ops[:0]
		nc = 1 + r.IntN(3)
		pl.Cfg["clients"] = int64(nc)
		for c := 0; c < nc; c++ {
			style := "reuse"
			if c > 0 && r.IntN(2) == 0 {
				style = "close"
			}
			pl.Ops = append(pl.Ops, plan.Op{K: "client", T: c, A: int64(r.IntN(5)), B: int64(4 + r.IntN(12)), C: int64(1 + r.IntN(3)), D: int64(r.IntN(3) * 500), S: style})
		}
		if r.IntN(4) > 0 {
			pl.Ops = append(pl.Ops, plan.Op{K: "stall", A: int64(r.IntN(8)), B: int64(5 + r.IntN(100))})
		}
		pl.Cfg["stop_ms"] = 0
	}
	if pl.Cfg["transport"] == 1 {
		// A UDP exporter that falls silent for as long as, or longer than, the collector keeps a peer's
		// handler (1800 s without a datagram) and then goes on from the same address: what it sends
		// afterwards is delivered at most once and in order like everything else, Stop still returns, and
		// nothing of the first handler is left. A stream of its own keeps older plans as they were.
		r2 := rand.New(rand.NewPCG(seed, 0xc12d))
		if r2.IntN(3) == 0 {
			c := r2.IntN(len(pl.Ops))
			if op := pl.Ops[c]; op.K == "client" && op.B >= 2 {
				pl.Cfg["silent_client"] = int64(op.T + 1)
				pl.Cfg["silent_after"] = int64(r2.IntN(int(op.B) - 1))
				pl.Cfg["silent_s"] = []int64{1800, 1801, 1900, 3600, 7000}[r2.IntN(5)]
				if r2.IntN(2) == 0 {
					pl.Cfg["silent_exact"] = 1
				}
				if r2.IntN(3) > 0 {
					pl.Cfg["stop_ms"] = 0 // Stop after every client has finished (else: wherever it was placed, e.g. inside the silence)
				}
			}
		}
	}
	genSchedule(r, pl, 6, 6000)
	return pl
}

func c12Template(c int) gTemplate { return c12TemplateUnk(c, 0) }

// c12TemplateUnk: with unk > 0 the template ends in unk enterprise-specific elements no registry
// knows (other ones for every client): a collector in "drop unknown" mode delivers the records
// without them.
func c12TemplateUnk(c, unk int) gTemplate {
	t := gTemplate{Dom: uint32(100 + c), ID: uint16(256 + c), Fields: []gField{
		{F: ipfixref.Field{ID: 10, Len: 4}, Known: true, Width: 4},
		{F: ipfixref.Field{ID: 1, Len: 8}, Known: true, Width: 8},
	}}
	for k := 0; k < unk; k++ {
		t.Fields = append(t.Fields, gField{F: ipfixref.Field{ID: uint16(20000 + 16*c + k), Ent: 12345, Len: 2}, Width: 2})
	}
	return t
}

func runC12(pl *plan.Plan, out *plan.Outcome) {
	env := newEnv(pl, out, keepLogFlag)
	tr := int(cfgOr(pl, "transport", 0))
	addr := "10.0.0.1:4739"
	z := getZoo()
	cin := collector.CollectorInput{Address: addr, Protocol: "tcp", MaxBufferSize: 65535, TemplateTTL: 7200}
	unk := int(cfgOr(pl, "unk", 0))
	if unk > 0 {
		cin.DecodingMode = collector.DecodingModeLenientDropUnknown
	}
	if tr == 1 {
		cin.Protocol = "udp"
	}
	if tr == 2 {
		cin.IsEncrypted = true
		cin.ServerCert, cin.ServerKey = z.SrvGood.CertPEM, z.SrvGood.KeyPEM
		if cfgOr(pl, "badtls", 0) == 1 {
			// a private key that does not belong to the certificate: the collector cannot serve anybody;
			// Start, clients that get nowhere, Stop - and nothing of it is left behind
			cin.ServerKey = z.SrvNameOnly.KeyPEM
			env.Count("fault.collector_with_unusable_tls_settings", 1)
		}
	}
	cp, err := collector.InitCollectingProcess(cin)
	if err != nil {
		out.Trouble = err.Error()
		return
	}
	t0 := time.Now()
	type stallT struct{ from, to time.Time }
	var stalls []stallT
	var clients []plan.Op
	for _, op := range pl.Ops {
		switch op.K {
		case "client":
			clients = append(clients, op)
		case "stall":
			stalls = append(stalls, stallT{t0.Add(time.Duration(op.A) * time.Millisecond), t0.Add(time.Duration(op.A+op.B) * time.Millisecond)})
		}
	}
	stallEnd := func(at time.Time) time.Time {
		end := at
		for changed := true; changed; {
			changed = false
			for _, s := range stalls {
				if !end.Before(s.from) && end.Before(s.to) {
					end, changed = s.to, true
				}
			}
		}
		return end
	}
	type rec struct{ client, n int }
	var delivered []rec // data records in delivery order
	var templatesDelivered = map[int]int{}
	stopCalled := make(chan struct{})
	env.Go("collector", func() { cp.Start() })
	env.Go("consumer", func() {
		for {
			// stall periods: the consumer does not receive, but always resumes
			if e := stallEnd(time.Now()); e.After(time.Now()) {
				env.Count("fault.consumer_stall", 1)
				env.Sleep(e.Sub(time.Now()))
			}
			var msg *entities.Message
			var ok bool
			Block("consume", func() { msg, ok = <-cp.GetMsgChan() })
			if !ok {
				return
			}
			d := captureMsg(msg)
			c := int(d.Domain) - 100
			if d.IsTemplate {
				templatesDelivered[c]++
				continue
			}
			for _, r := range d.Records {
				if len(r) == 2 && len(r[1].Wire) == 8 {
					delivered = append(delivered, rec{c, int(binary.BigEndian.Uint64(r[1].Wire))})
				} else {
					env.Violate("delivery-garbled", "", "client %d: a data record with %d fields was delivered", c, len(r))
				}
			}
		}
	})
	// a "reuse" client has a second connection, accounted for as a client of its own (index nReal+T)
	nReal := len(clients)
	all := append([]plan.Op(nil), clients...)
	for _, op := range clients {
		sh := op
		sh.T, sh.S = nReal+op.T, "reuse-second"
		all = append(all, sh)
	}
	tmplSent := make([]int, len(all))  // template messages fully written per client
	sent := make([]int, len(all))      // records fully written per client
	finished := make([]bool, len(all)) // client closed orderly after sending everything
	stay := make(chan struct{})
	clientDone := make(chan int, len(clients))
	for _, op := range clients {
		op := op
		env.Go(fmt.Sprintf("client%d", op.T), func() {
			defer func() { clientDone <- op.T }()
			env.Sleep(time.Duration(op.A)*time.Millisecond + time.Millisecond)
			if op.S == "badhello" && tr != 1 {
				// connects, says something that is not the start of a session (over tls: not a
				// handshake; over tcp: a few bytes short of a message header) and goes away
				var c net.Conn
				var err error
				Block("dial", func() { c, err = env.Net.Dial("tcp", addr) })
				if err != nil {
					return
				}
				env.Count("fault.client_bad_hello", 1)
				Block("write", func() { c.Write([]byte("GET / HTTP/1.0\r\n\r\n")[:3+op.T%12]) })
				env.Sleep(time.Duration(op.D) * time.Microsecond)
				Block("close", func() { c.Close() })
				finished[op.T] = true
				return
			}
			if op.S == "mute" && tr != 1 {
				// connects and never says anything (over tls: not even a handshake) until Stop
				var c net.Conn
				var err error
				Block("dial", func() { c, err = env.Net.Dial("tcp", addr) })
				if err != nil {
					return
				}
				env.Count("fault.mute_client", 1)
				Block("stay", func() { <-stay })
				c.Close()
				return
			}
			if op.S == "reuse" && tr == 0 {
				c12Reuse(env, op, nReal, addr, sent, tmplSent, finished, unk)
				return
			}
			tm := c12TemplateUnk(op.T, unk)
			var conn net.Conn
			var err error
			Block("dial", func() {
				switch tr {
				case 1:
					conn, err = env.Net.DialUDP(&net.UDPAddr{IP: net.ParseIP("10.0.0.1"), Port: 4739})
				case 2:
					pool := x509.NewCertPool()
					pool.AppendCertsFromPEM(z.CA.PEM)
					conn, err = simnet.TlsDial("tcp", addr, &tls.Config{RootCAs: pool, MinVersion: tls.VersionTLS12})
				default:
					conn, err = env.Net.Dial("tcp", addr)
				}
			})
			if err != nil {
				env.Count("c12.dial_failed", 1) // the collector was already stopped
				return
			}
			write := func(b []byte) error {
				var werr error
				Block("write", func() { _, werr = conn.Write(b) })
				return werr
			}
			if write(tm.templateMsg(ipfixref.Header{})) != nil {
				return
			}
			tmplSent[op.T] = 1
			n := 0
			for m := 0; m < int(op.B); m++ {
				if m > 0 && m == int(op.B)/2 && (op.T+int(op.B))%2 == 0 {
					// the same template again in mid-stream (an exporter may repeat its templates at any
					// time): a message of the connection like any other
					if write(tm.templateMsg(ipfixref.Header{Sequence: uint32(n)})) != nil {
						return
					}
					tmplSent[op.T]++
					env.Count("probe.identical_template_repeated", 1)
				}
				var body []byte
				for k := 0; k < int(op.C); k++ {
					var rb [12]byte
					binary.BigEndian.PutUint32(rb[0:4], uint32(op.T))
					binary.BigEndian.PutUint64(rb[4:12], uint64(n+k))
					body = append(body, rb[:]...)
					body = append(body, make([]byte, 2*unk)...)
				}
				msg := tm.dataMsg(ipfixref.Header{Sequence: uint32(n)}, body)
				if op.S == "abort" && m == int(op.B)-1 {
					// abrupt close in the middle of the last message
					write(msg[:len(msg)/2])
					env.Count("fault.abrupt_close_mid_message", 1)
					raw := conn
					if tc, ok := conn.(*tls.Conn); ok {
						raw = tc.NetConn() // an encrypted client dies as abruptly: no close_notify, a reset
					}
					if sc, ok := raw.(*simnet.Conn); ok {
						sc.Abort()
					} else {
						conn.Close()
					}
					return
				}
				if write(msg) != nil {
					return
				}
				n += int(op.C)
				sent[op.T] = n
				if op.D > 0 {
					env.Sleep(time.Duration(op.D) * time.Microsecond)
				}
				if int(cfgOr(pl, "silent_client", 0)) == op.T+1 && m == int(cfgOr(pl, "silent_after", 0)) {
					// this exporter falls silent for longer than the collector keeps a UDP peer's handler
					// (1800 s), then goes on from the same address
					env.Count("fault.udp_peer_silent_beyond_handler_timeout", 1)
					d := time.Duration(cfgOr(pl, "silent_s", 1900)) * time.Second
					if cfgOr(pl, "silent_exact", 0) == 1 {
						// ... or until the very instant the handler gives up (1800 s after this client's last
						// datagram): the next datagram and the handler's timeout meet, the scheduler orders them
						d = 1800*time.Second - time.Duration(op.D)*time.Microsecond
					}
					env.Sleep(d)
				}
			}
			if op.S == "stay" {
				Block("stay", func() { <-stay })
				conn.Close()
				return
			}
			env.Sleep(time.Millisecond)
			if op.S == "trickle" && tr != 1 {
				// the stream ends 1-3 bytes into a next message, with an orderly close (FIN / close_notify):
				// everything before it was a whole message and is delivered
				write([]byte{0, 10, 0, 40}[:1+op.T%3])
				env.Count("fault.orderly_close_inside_a_message_header", 1)
				env.Sleep(time.Millisecond)
			}
			Block("close", func() { conn.Close() })
			finished[op.T] = true
		})
	}
	var stopAt, stopRet time.Time
	stopStuck := true
	connAfterClose := int64(-1)
	var leftover []string
	listening := false
	env.Go("stopper", func() {
		stopMs := cfgOr(pl, "stop_ms", 0)
		if stopMs > 0 {
			env.Sleep(time.Duration(stopMs) * time.Millisecond)
		} else {
			// wait for every client that does not "stay"
			need := 0
			for _, op := range clients {
				if op.S != "stay" && op.S != "mute" {
					need++
				}
			}
			for i := 0; i < need; {
				var c int
				Block("join", func() { c = <-clientDone })
				if clients[c].S != "stay" && clients[c].S != "mute" {
					i++
				}
			}
			env.Sleep(200 * time.Millisecond)
			// Let the collector finish what it has read: wait until the consumer is receiving again,
			// then let simulated time move once more (the clock only moves when every goroutine is
			// blocked, i.e. when everything that was in flight has been delivered).
			for {
				e := stallEnd(time.Now())
				if !e.After(time.Now()) {
					break
				}
				env.Sleep(e.Sub(time.Now()) + time.Millisecond)
			}
			env.Sleep(5 * time.Millisecond)
			if tr != 1 {
				allClosed := true
				for _, op := range clients {
					if op.S == "stay" || op.S == "mute" {
						allClosed = false
					}
				}
				if allClosed {
					connAfterClose = cp.GetNumConnToCollector()
				}
			}
		}
		close(stopCalled)
		stopAt = time.Now()
		env.Logf("stop called")
		Block("stop", func() { cp.Stop() })
		stopRet = time.Now()
		stopStuck = false
		close(stay)
		env.Sleep(time.Millisecond)
		cp.CloseMsgChan()
		env.Sleep(time.Millisecond)
		leftover = census(func(g string) bool { return strings.Contains(g, "go-ipfix/pkg/collector.") })
		listening = env.Net.Listening(addr)
	})
	res := env.Run()
	_ = simrt.Steps
	if stopStuck {
		env.Violate("stop-hangs", transportNames[tr], "Stop() was called at +%v with the consumer draining and had not returned when the run ended (%s)", stopAt.Sub(t0), res)
		out.Hash = fmt.Sprintf("%s-stuck", out.Hash)
	} else if res != "done" && out.Trouble == "" {
		env.runEnded(res, out)
		return
	}
	if !stopStuck {
		// Stop may wait for the consumer to resume, never longer
		if limit := stallEnd(stopAt); stopRet.After(limit) {
			env.Violate("stop-slow", transportNames[tr], "Stop() called at +%v returned at +%v; the consumer was receiving again from +%v", stopAt.Sub(t0), stopRet.Sub(t0), limit.Sub(t0))
		}
		if len(leftover) > 0 {
			env.Violate("goroutine-leak", transportNames[tr], "%d goroutines of the collecting process are still alive after Stop returned, e.g.: %s", len(leftover), oneLineStack(leftover[0]))
		}
		if listening {
			env.Violate("socket-leak", transportNames[tr], "the listen address is still bound after Stop returned")
		}
	}
	if connAfterClose > 0 {
		env.Violate("connection-count", "", "all clients have disconnected, GetNumConnToCollector() = %d", connAfterClose)
	}
	// per connection: in order, exactly once (tcp/tls: gap-free prefix, complete if the client finished before Stop)
	per := map[int][]int{}
	for _, d := range delivered {
		per[d.client] = append(per[d.client], d.n)
	}
	total := 0
	for c, ns := range per {
		total += len(ns)
		for i, n := range ns {
			if tr != 1 && n != i {
				env.Violate("order-or-gap", transportNames[tr], "client %d: delivery %d carries record %d (deliveries: %v)", c, i, n, head2(ns, 20))
				break
			}
			if tr == 1 && i > 0 && n <= ns[i-1] {
				env.Violate("udp-repeat-or-reorder", "", "client %d: record %d delivered after record %d (deliveries: %v)", c, n, ns[i-1], head2(ns, 20))
				break
			}
		}
		if c >= 0 && c < len(sent) && len(ns) > sent[c]+int(all[c].C) {
			env.Violate("more-than-sent", "", "client %d: %d records delivered, %d sent", c, len(ns), sent[c])
		}
	}
	for c, op := range all {
		if tr != 1 && finished[c] && cfgOr(pl, "stop_ms", 0) == 0 && tmplSent[c] > 0 && templatesDelivered[c] != tmplSent[c] {
			env.Violate("lost-message", "template", "client %d closed its connection after sending %d template messages and %d records (%s), %d template messages were delivered", c, tmplSent[c], sent[c], op.S, templatesDelivered[c])
		}
		if tr != 1 && finished[c] && cfgOr(pl, "stop_ms", 0) == 0 && len(per[c]) != sent[c] {
			env.Violate("lost-message", transportNames[tr], "client %d closed its connection after sending %d records (%s), %d were delivered", c, sent[c], op.S, len(per[c]))
		}
	}
	out.Add("c12.records_delivered", int64(total))
	out.Add("c12.transport."+transportNames[tr], 1)
	if cfgOr(pl, "stop_ms", 0) > 0 {
		out.Add("fault.stop_during_traffic", 1)
	}
	out.Nontrivial = len(clients) >= 2 && total >= 4
	if out.Hash == "" || pl.Mode == "race" {
		out.Hash = fmt.Sprintf("seed-%d", pl.Seed)
	}
	out.Sample = map[string]any{"transport": transportNames[tr], "clients": len(clients), "records_delivered": total, "stop_ms": cfgOr(pl, "stop_ms", 0)}
}

// c12Reuse: the first connection pipelines its share of the messages and is reset; the second one is
// dialled from the same local address at once, announces its own template (another observation
// domain, so deliveries are attributable) and sends the rest, then closes in an orderly way.
func c12Reuse(env *Env, op plan.Op, nReal int, addr string, sent, tmplSent []int, finished []bool, unk int) {
	var c1 *simnet.Conn
	var err error
	Block("dial", func() { c1, err = env.Net.Dial("tcp", addr) })
	if err != nil {
		env.Count("c12.dial_failed", 1)
		return
	}
	send := func(conn net.Conn, idx, msgs int) bool {
		tm := c12TemplateUnk(idx, unk)
		var werr error
		Block("write", func() { _, werr = conn.Write(tm.templateMsg(ipfixref.Header{})) })
		if werr != nil {
			return false
		}
		tmplSent[idx] = 1
		n := 0
		for m := 0; m < msgs; m++ {
			var body []byte
			for k := 0; k < int(op.C); k++ {
				var rb [12]byte
				binary.BigEndian.PutUint32(rb[0:4], uint32(idx))
				binary.BigEndian.PutUint64(rb[4:12], uint64(n+k))
				body = append(body, rb[:]...)
				body = append(body, make([]byte, 2*unk)...)
			}
			Block("write", func() { _, werr = conn.Write(tm.dataMsg(ipfixref.Header{Sequence: uint32(n)}, body)) })
			if werr != nil {
				return false
			}
			n += int(op.C)
			sent[idx] = n
		}
		return true
	}
	first := 1 + int(op.B)/2
	if !send(c1, op.T, first) {
		return
	}
	if op.D > 0 {
		env.Sleep(time.Duration(op.D) * time.Microsecond)
	}
	local := c1.LocalAddr().(*net.TCPAddr)
	c1.Abort()
	env.Count("fault.reset_then_reconnect_same_address", 1)
	var c2 *simnet.Conn
	Block("dial", func() { c2, err = env.Net.DialFrom("tcp", addr, local) })
	if err != nil {
		env.Count("c12.dial_failed", 1)
		return
	}
	if !send(c2, nReal+op.T, int(op.B)) {
		return
	}
	env.Sleep(time.Millisecond)
	Block("close", func() { c2.Close() })
	finished[nReal+op.T] = true
}

func head2(a []int, n int) []int {
	if len(a) > n {
		return a[:n]
	}
	return a
}

func oneLineStack(g string) string {
	lines := strings.Split(g, "\n")
	var fns []string
	for _, l := range lines[1:] {
		if !strings.HasPrefix(l, "\t") && l != "" {
			fns = append(fns, strings.TrimSpace(l))
		}
		if len(fns) >= 4 {
			break
		}
	}
	return lines[0] + " " + strings.Join(fns, " <- ")
}
