package harness

import (
	"errors"
	"fmt"
	"net"
	"sort"
	"strings"
	"time"

	"github.com/vmware/go-ipfix/pkg/entities"
	"github.com/vmware/go-ipfix/pkg/intermediate"
	"github.com/vmware/go-ipfix/pkg/registry"

	"verif/sim/plan"
)

// Aggregation engine shared by C05, C06, C07 (and C13): drives a real
// AggregationProcess from a plan inside the bubble's fake time and compares it
// with aggModel after every operation.
//
// Plan ops:
//   rec   A=key B=node (0 src, 1 dst, 2 single) S=tcpState
//         N=[start, end, pktTot, octTot, revPktTot, revOctTot, pktDelta, revPktDelta]  D=correlate-value seed
//   adv   A=nanoseconds
//   scan  B=1: reset each exported record inside the callback (as Antrea does)
//         N=indices (0-based) of the callbacks of this scan that return an error (fault)
//   query compare every flow, the flow count and the advertised time to next expiry
//   resetall  ForAllRecordsDo with a resetting callback
// Cfg: active_ms, inactive_ms, max_retries, min_expiry_ms, keys, cat<k> (category of key k),
//      v6<k>, throughput (0: AggregateElements without throughput lists is not supported by
//      the library's first-record path, so always 1)

var (
	aggNonStats      = []string{"flowEndSeconds", "flowEndReason", "tcpState", "httpVals"}
	aggStats         = []string{"packetTotalCount", "packetDeltaCount", "octetTotalCount", "reversePacketTotalCount", "reversePacketDeltaCount", "reverseOctetTotalCount"}
	aggSrcStats      = []string{"packetTotalCountFromSourceNode", "packetDeltaCountFromSourceNode", "octetTotalCountFromSourceNode", "reversePacketTotalCountFromSourceNode", "reversePacketDeltaCountFromSourceNode", "reverseOctetTotalCountFromSourceNode"}
	aggDstStats      = []string{"packetTotalCountFromDestinationNode", "packetDeltaCountFromDestinationNode", "octetTotalCountFromDestinationNode", "reversePacketTotalCountFromDestinationNode", "reversePacketDeltaCountFromDestinationNode", "reverseOctetTotalCountFromDestinationNode"}
	aggEndSecs       = []string{"flowEndSecondsFromSourceNode", "flowEndSecondsFromDestinationNode"}
	aggThr           = []string{"throughput", "reverseThroughput"}
	aggSrcThr        = []string{"throughputFromSourceNode", "reverseThroughputFromSourceNode"}
	aggDstThr        = []string{"throughputFromDestinationNode", "reverseThroughputFromDestinationNode"}
	aggCorrelateV4   = []string{"sourcePodName", "sourcePodNamespace", "sourceNodeName", "destinationPodName", "destinationPodNamespace", "destinationNodeName", "destinationClusterIPv4", "destinationServicePort", "ingressNetworkPolicyRuleAction", "egressNetworkPolicyRuleAction", "ingressNetworkPolicyRulePriority"}
	aggCorrelateBoth = []string{"sourcePodName", "sourcePodNamespace", "sourceNodeName", "destinationPodName", "destinationPodNamespace", "destinationNodeName", "destinationClusterIPv4", "destinationClusterIPv6", "destinationServicePort", "ingressNetworkPolicyRuleAction", "egressNetworkPolicyRuleAction", "ingressNetworkPolicyRulePriority"}
)

func aggElements() *intermediate.AggregationElements {
	return &intermediate.AggregationElements{
		NonStatsElements: aggNonStats, StatsElements: aggStats,
		AggregatedSourceStatsElements: aggSrcStats, AggregatedDestinationStatsElements: aggDstStats,
		AntreaFlowEndSecondsElements: aggEndSecs, ThroughputElements: aggThr,
		SourceThroughputElements: aggSrcThr, DestinationThroughputElements: aggDstThr,
	}
}

type aggSession struct {
	env    *Env
	ap     *intermediate.AggregationProcess
	model  *aggModel
	prop   string
	keyCat []int
	// unresKey-1: the key whose source-node records name no Pod (0: none); see aggRec.Unres
	unresKey int
	// podSwapKey-1: the key whose source-node records alternate between two source Pod names (0: none)
	podSwapKey, podSwapN int
	keyV6    []bool
	// corrListed: the fields named in AggregationInput.CorrelateFields
	corrListed map[string]bool
	msgCh      chan *entities.Message
	// a record that lacked an element was taken in by the process: the model does not say what
	// the flow looks like then, the session ends there
	fuzzyAccepted bool
}

// aggKeyMode 1 ("keymode" in the plan): 5-tuples come in pairs that differ in their source port
// only - same addresses, same protocol, and the protocol is not always TCP (ICMP, ICMPv6, SCTP, GRE,
// UDP too). Every distinct 5-tuple is a flow of its own whatever the protocol number is.
var aggKeyMode int

var aggPairProto = []uint8{1, 58, 132, 47, 17, 6}

func aggKeyOf(k int, v6 bool) intermediate.FlowKey {
	if aggKeyMode == 1 {
		p := k / 2
		proto := aggPairProto[p%len(aggPairProto)]
		if v6 {
			return intermediate.FlowKey{SourceAddress: net.ParseIP(fmt.Sprintf("2001:db8::%x", 0x10+p)).String(), DestinationAddress: net.ParseIP(fmt.Sprintf("2001:db8::%x", 0x80+p)).String(), Protocol: proto, SourcePort: uint16(1000 + k), DestinationPort: 443}
		}
		return intermediate.FlowKey{SourceAddress: fmt.Sprintf("10.1.0.%d", 1+p), DestinationAddress: fmt.Sprintf("10.2.0.%d", 1+p), Protocol: proto, SourcePort: uint16(1000 + k), DestinationPort: 443}
	}
	if v6 {
		return intermediate.FlowKey{SourceAddress: net.ParseIP(fmt.Sprintf("2001:db8::%x", 0x10+k)).String(), DestinationAddress: net.ParseIP(fmt.Sprintf("2001:db8::%x", 0x80+k)).String(), Protocol: 6, SourcePort: uint16(1000 + k), DestinationPort: 443}
	}
	return intermediate.FlowKey{SourceAddress: fmt.Sprintf("10.1.0.%d", 1+k), DestinationAddress: fmt.Sprintf("10.2.0.%d", 1+k), Protocol: 6, SourcePort: uint16(1000 + k), DestinationPort: 443}
}

func newAggSession(env *Env, prop string) (*aggSession, error) {
	pl := env.Plan
	s := &aggSession{env: env, prop: prop, msgCh: make(chan *entities.Message)}
	aggKeyMode = int(cfgOr(pl, "keymode", 0))
	nk := int(cfgOr(pl, "keys", 2))
	for k := 0; k < nk; k++ {
		s.keyCat = append(s.keyCat, int(cfgOr(pl, fmt.Sprintf("cat%d", k), catIntra)))
		s.keyV6 = append(s.keyV6, cfgOr(pl, fmt.Sprintf("v6%d", k), 0) == 1)
	}
	s.unresKey = int(cfgOr(pl, "unres_key", 0))
	s.podSwapKey = int(cfgOr(pl, "podswap_key", 0))
	active := time.Duration(cfgOr(pl, "active_ms", 1000)) * time.Millisecond
	inactive := time.Duration(cfgOr(pl, "inactive_ms", 3000)) * time.Millisecond
	intermediate.MaxRetries = int(cfgOr(pl, "max_retries", 2))
	intermediate.MinExpiryTime = time.Duration(cfgOr(pl, "min_expiry_ms", 100)) * time.Millisecond
	// The list of fields to correlate is the application's: it may name an element of a type
	// correlation does not handle (such a field is ignored). Everything else in the list still
	// has to be merged.
	corr := aggCorrelateBoth
	if odd := int(cfgOr(pl, "corr_odd", 0)); odd > 0 {
		at := (odd - 1) % (len(aggCorrelateBoth) + 1)
		corr = append(append(append([]string(nil), aggCorrelateBoth[:at]...), []string{"flowStartSeconds", "octetTotalCount"}[odd%2]), aggCorrelateBoth[at:]...)
		env.Count("probe.correlate_list_with_unsupported_type", 1)
	}
	s.corrListed = map[string]bool{}
	if drop := int(cfgOr(pl, "corr_drop", 0)); drop > 0 {
		var kept []string
		for i, name := range aggCorrelateBoth {
			if drop&(1<<i) == 0 {
				kept = append(kept, name)
			}
		}
		corr = kept // nil when everything is dropped
		env.Count("probe.correlate_list_partial_or_empty", 1)
	}
	for _, name := range corr {
		s.corrListed[name] = true
	}
	ap, err := intermediate.InitAggregationProcess(intermediate.AggregationInput{
		MessageChan: s.msgCh, WorkerNum: int(cfgOr(pl, "workers", 2)), CorrelateFields: corr, AggregateElements: aggElements(),
		ActiveExpiryTimeout: active, InactiveExpiryTimeout: inactive,
	})
	if err != nil {
		return nil, err
	}
	s.ap = ap
	s.model = newAggModel(active, inactive, intermediate.MaxRetries)
	return s, nil
}

func ie(name string, ent uint32) *entities.InfoElement {
	e, err := registry.GetInfoElement(name, ent)
	if err != nil {
		panic(err)
	}
	return e
}

// corrValues derives the correlate-field values a node reports for a key.
func corrValues(key, node, cat int, v6 bool, seed int64) map[string]string {
	m := map[string]string{}
	h := uint64(seed)*2654435761 + uint64(key)*97 + 13
	bit := func(i uint) bool { return (h>>i)&1 == 1 }
	src := node == nodeSrc || node == nodeSingle
	dst := node == nodeDst || node == nodeSingle
	if cat == catEgressDeny {
		src, dst = true, false
	}
	if cat == catIngressRej {
		src, dst = false, true
	}
	m["sourcePodName"], m["destinationPodName"] = "", ""
	if src {
		m["sourcePodName"] = fmt.Sprintf("spod-%d", key)
	}
	if dst {
		m["destinationPodName"] = fmt.Sprintf("dpod-%d", key)
	}
	// namespaces / node names: own side always, the other side sometimes (overlap)
	set := func(name string, own bool, i uint, val string) {
		if own || bit(i) {
			m[name] = val
		} else {
			m[name] = ""
		}
	}
	set("sourcePodNamespace", src, 1, fmt.Sprintf("sns-%d-%d", key, node))
	set("sourceNodeName", src, 2, fmt.Sprintf("snode-%d-%d", key, node))
	set("destinationPodNamespace", dst, 3, fmt.Sprintf("dns-%d-%d", key, node))
	set("destinationNodeName", dst, 4, fmt.Sprintf("dnode-%d-%d", key, node))
	ip := "0.0.0.0"
	if v6 {
		ip = "::"
	}
	if src || bit(5) {
		if v6 {
			ip = fmt.Sprintf("fd01::%x", 1+key+16*node)
		} else {
			ip = fmt.Sprintf("172.16.%d.%d", key, 1+node)
		}
	}
	m["destinationClusterIP"] = ip
	m["destinationServicePort"] = "0"
	if src || bit(6) {
		// also values whose low byte, or low two bytes' high byte, is zero
		m["destinationServicePort"] = fmt.Sprint([]int{8000 + key + 100*node, 256 * (1 + key + 4*node), 0xff00, 8192 + 256*node, 65535 - key - 8*node}[(h>>9)%5])
	}
	ing, egr := 0, 0
	switch cat {
	case catEgressDeny:
		egr = 2 + int(h>>7&1) // drop or reject
	case catIngressRej:
		ing = 3
	case catInterIngDrop:
		if dst {
			ing = 2
		}
		if src {
			egr = 1
		}
	default:
		if dst {
			ing = 1
		}
		if src {
			egr = 1
		}
	}
	m["ingressNetworkPolicyRuleAction"] = fmt.Sprint(ing)
	m["egressNetworkPolicyRuleAction"] = fmt.Sprint(egr)
	m["ingressNetworkPolicyRulePriority"] = "0"
	if dst || bit(8) {
		m["ingressNetworkPolicyRulePriority"] = fmt.Sprint([]int{100 + key + 10*node, 256 * (1 + key + 4*node), 65536 * (1 + key + 4*node), 1<<24 + key + 8*node, -1 - key - 4*node, -2147483648 + node}[(h>>12)%6])
	}
	return m
}

func flowTypeOf(cat int) uint8 {
	switch cat {
	case catIntra:
		return registry.FlowTypeIntraNode
	case catToExternal:
		return registry.FlowTypeToExternal
	}
	return registry.FlowTypeInterNode
}

func atoi(s string) int64 {
	var n int64
	fmt.Sscan(s, &n)
	return n
}

// buildMessage makes the decoded-message form of one record, as a collecting process delivers it.
func (s *aggSession) buildMessage(r aggRec, v6 bool) *entities.Message {
	return s.buildMessageN([]aggRec{r}, []bool{v6}, "")
}

// buildMessageN: one data message carrying several records (one set). omit names an element that
// is left out of every record (a record the aggregation process has to refuse).
func (s *aggSession) buildMessageN(rs []aggRec, v6s []bool, omit string) *entities.Message {
	set := entities.NewSet(true)
	set.PrepareSet(entities.Data, 256)
	for i, r := range rs {
		els := s.buildElements(r, v6s[i])
		if omit != "" {
			kept := els[:0:0]
			for _, e := range els {
				if e.GetName() != omit {
					kept = append(kept, e)
				}
			}
			els = kept
		}
		if err := set.AddRecord(els, 256); err != nil {
			panic(err)
		}
	}
	msg := entities.NewMessage(true)
	msg.SetVersion(10)
	msg.SetObsDomainID(1)
	msg.SetExportAddress("10.0.0.9")
	msg.AddSet(set)
	return msg
}

func (s *aggSession) buildElements(r aggRec, v6 bool) []entities.InfoElementWithValue {
	A, I, R := registry.AntreaEnterpriseID, registry.IANAEnterpriseID, registry.IANAReversedEnterpriseID
	fk := aggKeyOf(r.Key, v6)
	var els []entities.InfoElementWithValue
	if v6 {
		els = append(els, entities.NewIPAddressInfoElement(ie("sourceIPv6Address", I), net.ParseIP(fk.SourceAddress)),
			entities.NewIPAddressInfoElement(ie("destinationIPv6Address", I), net.ParseIP(fk.DestinationAddress)))
	} else {
		els = append(els, entities.NewIPAddressInfoElement(ie("sourceIPv4Address", I), net.ParseIP(fk.SourceAddress).To4()),
			entities.NewIPAddressInfoElement(ie("destinationIPv4Address", I), net.ParseIP(fk.DestinationAddress).To4()))
	}
	c := r.Corr
	els = append(els,
		entities.NewUnsigned16InfoElement(ie("sourceTransportPort", I), fk.SourcePort),
		entities.NewUnsigned16InfoElement(ie("destinationTransportPort", I), fk.DestinationPort),
		entities.NewUnsigned8InfoElement(ie("protocolIdentifier", I), fk.Protocol),
		entities.NewStringInfoElement(ie("sourcePodName", A), c["sourcePodName"]),
		entities.NewStringInfoElement(ie("sourcePodNamespace", A), c["sourcePodNamespace"]),
		entities.NewStringInfoElement(ie("sourceNodeName", A), c["sourceNodeName"]),
		entities.NewStringInfoElement(ie("destinationPodName", A), c["destinationPodName"]),
		entities.NewStringInfoElement(ie("destinationPodNamespace", A), c["destinationPodNamespace"]),
		entities.NewStringInfoElement(ie("destinationNodeName", A), c["destinationNodeName"]),
	)
	if v6 {
		els = append(els, entities.NewIPAddressInfoElement(ie("destinationClusterIPv6", A), net.ParseIP(c["destinationClusterIP"])))
	} else {
		ip4 := net.ParseIP(c["destinationClusterIP"])
		if r.Layout != 1 {
			ip4 = ip4.To4() // an application may hand an IPv4 address in its 4-byte or in its 16-byte form
		}
		els = append(els, entities.NewIPAddressInfoElement(ie("destinationClusterIPv4", A), ip4))
	}
	els = append(els,
		entities.NewUnsigned16InfoElement(ie("destinationServicePort", A), uint16(atoi(c["destinationServicePort"]))),
		entities.NewUnsigned8InfoElement(ie("ingressNetworkPolicyRuleAction", A), uint8(atoi(c["ingressNetworkPolicyRuleAction"]))),
		entities.NewUnsigned8InfoElement(ie("egressNetworkPolicyRuleAction", A), uint8(atoi(c["egressNetworkPolicyRuleAction"]))),
		entities.NewSigned32InfoElement(ie("ingressNetworkPolicyRulePriority", A), int32(atoi(c["ingressNetworkPolicyRulePriority"]))),
		entities.NewDateTimeSecondsInfoElement(ie("flowStartSeconds", I), r.Start),
		entities.NewDateTimeSecondsInfoElement(ie("flowEndSeconds", I), r.End),
		entities.NewUnsigned8InfoElement(ie("flowEndReason", I), registry.ActiveTimeoutReason),
		entities.NewStringInfoElement(ie("tcpState", A), r.TCPState),
		entities.NewStringInfoElement(ie("httpVals", A), r.HTTP),
		entities.NewUnsigned8InfoElement(ie("flowType", A), flowTypeOf(r.Cat)),
		entities.NewUnsigned64InfoElement(ie("packetTotalCount", I), r.Tot[0]),
		entities.NewUnsigned64InfoElement(ie("packetDeltaCount", I), r.Delta[0]),
		entities.NewUnsigned64InfoElement(ie("octetTotalCount", I), r.Tot[1]),
		entities.NewUnsigned64InfoElement(ie("reversePacketTotalCount", R), r.Tot[2]),
		entities.NewUnsigned64InfoElement(ie("reversePacketDeltaCount", R), r.Delta[1]),
		entities.NewUnsigned64InfoElement(ie("reverseOctetTotalCount", R), r.Tot[3]),
	)
	switch r.Layout {
	case 1: // the counters come first
		n := len(els)
		els = append(append([]entities.InfoElementWithValue(nil), els[n-6:]...), els[:n-6]...)
	case 2: // everything the other way round
		for a, b := 0, len(els)-1; a < b; a, b = a+1, b-1 {
			els[a], els[b] = els[b], els[a]
		}
	}
	return els
}

// httpValsOf: the free-text httpVals field of a record. Mostly empty; otherwise a JSON object keyed by
// transaction id as the flow exporter writes it, or text that is not such an object (cut short, a
// non-integer key, an array, a nested value). The process keeps the text as it can; the counters
// and end times of the record count all the same.
func httpValsOf(d int64, end uint32) string {
	switch (d >> 3) % 16 {
	case 10, 11:
		return fmt.Sprintf(`{"%d":"GET /p%d HTTP/1.1 200"}`, end%7, end)
	case 12:
		return `{"1":"GET /cut`
	case 13:
		return `{"a":"b"}`
	case 14:
		return `[1,2]`
	case 15:
		return `{"1":{"x":1}}`
	}
	return ""
}

func (s *aggSession) recOf(op plan.Op) aggRec {
	key := int(op.A)
	n := make([]int64, 8)
	copy(n, op.N)
	cat := catIntra
	v6 := false
	if key >= 0 && key < len(s.keyCat) {
		cat, v6 = s.keyCat[key], s.keyV6[key]
	}
	node := int(op.B)
	if !catNeedsCorrelation(cat) {
		node = nodeSingle
	}
	rec := aggRec{Key: key, Node: node, Cat: cat, Start: uint32(n[0]), End: uint32(n[1]),
		Tot: [4]uint64{uint64(n[2]), uint64(n[3]), uint64(n[4]), uint64(n[5])}, Delta: [2]uint64{uint64(n[6]), uint64(n[7])},
		TCPState: op.S, Corr: corrValues(key, node, cat, v6, op.D), Layout: int(op.D % 3), HTTP: httpValsOf(op.D, uint32(n[1]))}
	if s.unresKey == key+1 && node == nodeSrc && (cat == catInter || cat == catInterIngDrop) {
		rec.Unres = true
		rec.Corr["sourcePodName"] = ""
		s.env.Count("probe.source_record_without_pod_names", 1)
	}
	if s.podSwapKey == key+1 && node == nodeSrc && (cat == catInter || cat == catInterIngDrop) {
		if s.podSwapN++; s.podSwapN%2 == 0 {
			rec.Corr["sourcePodName"] = fmt.Sprintf("spod-%d-replacement", key)
			s.env.Count("probe.source_record_names_a_replacement_pod", 1)
		}
	}
	return rec
}

// ---- reading the real process -------------------------------------------------

// fieldStr renders an element of a record as a string for comparison.
func fieldStr(rec entities.Record, name string) (string, bool) {
	el, _, ok := rec.GetInfoElementWithValue(name)
	if !ok {
		return "", false
	}
	switch el.GetDataType() {
	case entities.String:
		return el.GetStringValue(), true
	case entities.Unsigned8:
		return fmt.Sprint(el.GetUnsigned8Value()), true
	case entities.Unsigned16:
		return fmt.Sprint(el.GetUnsigned16Value()), true
	case entities.Unsigned32, entities.DateTimeSeconds:
		return fmt.Sprint(el.GetUnsigned32Value()), true
	case entities.Unsigned64:
		return fmt.Sprint(el.GetUnsigned64Value()), true
	case entities.Signed32:
		return fmt.Sprint(el.GetSigned32Value()), true
	case entities.Ipv4Address, entities.Ipv6Address:
		return el.GetIPAddressValue().String(), true
	}
	return "", false
}

func mapStr(m map[string]interface{}, name string) (string, bool) {
	v, ok := m[name]
	if !ok {
		return "", false
	}
	if ip, isIP := v.(net.IP); isIP {
		return ip.String(), true
	}
	return fmt.Sprint(v), true
}

// compareFlow checks one flow's observable fields against the model. get reads a field by name.
func (s *aggSession) compareFlow(f *aggFlow, get func(string) (string, bool), where string) {
	chk := func(clause, name string, want uint64) {
		got, ok := get(name)
		if !ok {
			s.env.Violate("c05-field-missing", name, "%s: key %d: field %s missing", where, f.Key, name)
			return
		}
		if got != fmt.Sprint(want) {
			s.env.Violate(clause, name, "%s: key %d: %s = %s, model %d (%s)", where, f.Key, name, got, want, f)
		}
	}
	chk("c05-end-time", "flowEndSeconds", uint64(f.End))
	totNames := [4]int{0, 2, 3, 5} // indices of the total counters in aggStats
	dltNames := [2]int{1, 4}
	for i, idx := range totNames {
		chk("c05-common-total", aggStats[idx], f.Tot[i])
		chk("c05-node-total", aggSrcStats[idx], f.N[0].Tot[i])
		chk("c05-node-total", aggDstStats[idx], f.N[1].Tot[i])
	}
	for i, idx := range dltNames {
		if !f.Ambig {
			chk("c05-common-delta", aggStats[idx], f.Dlt[i])
		}
		chk("c05-node-delta", aggSrcStats[idx], f.N[0].Delta[i])
		chk("c05-node-delta", aggDstStats[idx], f.N[1].Delta[i])
	}
	for i := range aggThr {
		if !f.Ambig {
			chk("c05-common-throughput", aggThr[i], f.Thr[i])
		}
		chk("c05-node-throughput", aggSrcThr[i], f.N[0].Thr[i])
		chk("c05-node-throughput", aggDstThr[i], f.N[1].Thr[i])
	}
	chk("c05-node-end", aggEndSecs[0], uint64(f.N[0].End))
	chk("c05-node-end", aggEndSecs[1], uint64(f.N[1].End))
	if !f.Ambig {
		if got, _ := get("tcpState"); got != f.TCP {
			s.env.Violate("c05-common-latest", "tcpState", "%s: key %d: tcpState = %q, the latest reporter sent %q", where, f.Key, got, f.TCP)
		}
	}
	if f.Ready && catNeedsCorrelation(f.Cat) {
		v6 := s.keyV6[f.Key]
		names := make([]string, 0, len(f.Corr))
		for name := range f.Corr {
			names = append(names, name)
		}
		sort.Strings(names) // violations are reported in a fixed order
		for _, name := range names {
			acc := f.Corr[name]
			field := name
			if name == "destinationClusterIP" {
				field = "destinationClusterIPv4"
				if v6 {
					field = "destinationClusterIPv6"
				}
			}
			got, ok := get(field)
			if !ok || !s.corrListed[field] {
				continue // only the fields the application listed are merged
			}
			okv := false
			for _, a := range acc {
				if a == got {
					okv = true
				}
			}
			if !okv {
				s.env.Violate("c07-merged-field", name, "%s: key %d: correlated field %s = %q, acceptable %q", where, f.Key, field, got, acc)
			}
		}
	}
}

// checkAll compares every flow, the flow count, the snapshot invariants and the advertised expiry.
func (s *aggSession) checkAll(where string) {
	now := time.Now()
	if n := s.ap.GetNumFlows(); int(n) != len(s.model.Flows) {
		s.env.Violate("c05-flow-count", "", "%s: %d flows held, model has %d", where, n, len(s.model.Flows))
	}
	for _, k := range s.model.sortedKeys() {
		f := s.model.Flows[k]
		fk := aggKeyOf(k, s.keyV6[k])
		recs := s.ap.GetRecords(&fk)
		if len(recs) != 1 {
			s.env.Violate("c05-one-record-per-key", "", "%s: key %d: GetRecords returned %d records", where, k, len(recs))
			continue
		}
		m := recs[0]
		s.compareFlow(f, func(name string) (string, bool) { return mapStr(m, name) }, where)
	}
	s.checkSnapshot(where, now)
	// advertised time to the next expiry
	got := s.ap.GetExpiryFromExpirePriorityQueue()
	if next, ok := s.model.nextExpiry(); ok {
		want := intermediate.MinExpiryTime + next.Sub(now)
		if want < 0 {
			want = intermediate.MinExpiryTime
		}
		if got != want {
			s.env.Violate("c06-advertised-expiry", "", "%s: GetExpiryFromExpirePriorityQueue = %v, earliest deadline is in %v (+MinExpiryTime %v)", where, got, next.Sub(now), intermediate.MinExpiryTime)
		}
	} else {
		want := s.model.Active
		if s.model.Inactive < want {
			want = s.model.Inactive
		}
		if got != want {
			s.env.Violate("c06-advertised-expiry", "empty", "%s: no flows: GetExpiryFromExpirePriorityQueue = %v, want %v", where, got, want)
		}
	}
}

// checkSnapshot: held <=> scheduled, indices consistent, heap order valid, deadlines as in the model.
func (s *aggSession) checkSnapshot(where string, now time.Time) {
	heapItems, mapItems := s.ap.VerifSnapshot()
	if len(heapItems) != len(mapItems) {
		s.env.Violate("c06-held-iff-scheduled", "", "%s: %d flows held, %d entries scheduled", where, len(mapItems), len(heapItems))
	}
	for _, it := range mapItems {
		if !it.ItemMatch {
			s.env.Violate("c06-held-iff-scheduled", "stranded", "%s: flow %v is held but not scheduled (queue index %d)", where, it.Key, it.Index)
		}
	}
	seen := map[intermediate.FlowKey]int{}
	for i, it := range heapItems {
		seen[it.Key]++
		if !it.InMap {
			s.env.Violate("c06-held-iff-scheduled", "orphan", "%s: scheduled entry %v refers to no held flow", where, it.Key)
		}
		if it.Index != i {
			s.env.Violate("c06-heap-index", "", "%s: entry %v at slot %d has index %d", where, it.Key, i, it.Index)
		}
		if i > 0 {
			p := heapItems[(i-1)/2]
			if minT(it.Active, it.Inactive).Before(minT(p.Active, p.Inactive)) {
				s.env.Violate("c06-heap-order", "", "%s: entry %v (slot %d) expires before its parent %v", where, it.Key, i, p.Key)
			}
		}
	}
	for k, n := range seen {
		if n > 1 {
			s.env.Violate("c06-held-iff-scheduled", "duplicate", "%s: flow %v is scheduled %d times", where, k, n)
		}
	}
	// deadlines
	for _, k := range s.model.sortedKeys() {
		f := s.model.Flows[k]
		if f.Fuzzy {
			continue
		}
		fk := aggKeyOf(k, s.keyV6[k])
		for _, it := range mapItems {
			if it.Key != fk || !it.ItemMatch {
				continue
			}
			if !it.Active.Equal(f.Active) || !it.Inactive.Equal(f.Inactive) {
				s.env.Violate("c06-deadline", "", "%s: key %d deadlines active=+%v inactive=+%v, model active=+%v inactive=+%v", where, k,
					it.Active.Sub(bubbleEpoch), it.Inactive.Sub(bubbleEpoch), f.Active.Sub(bubbleEpoch), f.Inactive.Sub(bubbleEpoch))
			}
			if it.Ready != f.Ready {
				s.env.Violate("c07-ready", "", "%s: key %d ready=%v, model %v (%s)", where, k, it.Ready, f.Ready, f)
			}
		}
	}
}

func minT(a, b time.Time) time.Time {
	if a.Before(b) {
		return a
	}
	return b
}

// ---- operations ---------------------------------------------------------------

// opRecs: several records (of different keys) in one message.
func (s *aggSession) opRecs(i int, op plan.Op) {
	now := time.Now()
	var rs []aggRec
	var v6s []bool
	seen := map[int]bool{}
	for _, sub := range op.F {
		r := s.recOf(sub)
		if r.Key < 0 || r.Key >= len(s.keyCat) {
			continue
		}
		if seen[r.Key] {
			s.env.Count("probe.message_with_two_records_of_one_flow", 1)
		}
		if len(rs) > 0 && s.keyV6[r.Key] != v6s[0] {
			continue // one set, one template: records of one address family
		}
		if !s.model.clone().ingest(r, now) {
			s.env.Count("agg.skipped_out_of_contract_record", 1)
			continue
		}
		seen[r.Key] = true
		s.model.ingest(r, now)
		rs = append(rs, r)
		v6s = append(v6s, s.keyV6[r.Key])
	}
	if len(rs) == 0 {
		return
	}
	if err := s.ap.AggregateMsgByFlowKey(s.buildMessageN(rs, v6s, "")); err != nil {
		s.env.Violate("c05-ingest-error", "", "op %d: AggregateMsgByFlowKey (message of %d records) returned %v", i, len(rs), err)
	}
	s.env.Count("agg.records", int64(len(rs)))
	if len(rs) > 1 {
		s.env.Count("agg.multi_record_messages", 1)
	}
	s.env.Logf("op %d recs n=%d", i, len(rs))
}

// aggOmittable: elements without which the first record of a flow cannot be taken in.
var aggOmittable = []string{"flowEndSeconds", "octetTotalCount", "reverseOctetTotalCount", "flowStartSeconds"}

func (s *aggSession) opRec(i int, op plan.Op) {
	r := s.recOf(op)
	if r.Key < 0 || r.Key >= len(s.keyCat) {
		return
	}
	if op.X != "" {
		// A record that lacks an element the process needs, for a 5-tuple it holds no flow for: it
		// has to be refused, and a refused arrival leaves nothing behind (nothing held, nothing
		// scheduled). With a flow already held the outcome of such a record is not something the
		// properties speak about: not tried.
		if s.model.Flows[r.Key] != nil {
			return
		}
		err := s.ap.AggregateMsgByFlowKey(s.buildMessageN([]aggRec{r}, []bool{s.keyV6[r.Key]}, op.X))
		s.env.Count("fault.record_missing_element", 1)
		if err == nil {
			s.env.Count("probe.record_missing_element_accepted."+op.X, 1)
			s.fuzzyAccepted = true
		}
		s.env.Logf("op %d rec key=%d without %s -> err=%v", i, r.Key, op.X, err != nil)
		return
	}
	now := time.Now()
	if !s.model.clone().ingest(r, now) {
		s.env.Count("agg.skipped_out_of_contract_record", 1)
		return
	}
	s.model.ingest(r, now)
	msg := s.buildMessage(r, s.keyV6[r.Key])
	if err := s.ap.AggregateMsgByFlowKey(msg); err != nil {
		s.env.Violate("c05-ingest-error", "", "op %d: AggregateMsgByFlowKey returned %v", i, err)
	}
	s.env.Count("agg.records", 1)
	s.env.Logf("op %d rec key=%d node=%d end=%d", i, r.Key, r.Node, r.End)
}

var errInjected = errors.New("injected export failure")

func (s *aggSession) opScan(i int, op plan.Op) {
	now := time.Now()
	fail := map[int]bool{}
	for _, n := range op.N {
		fail[int(n)] = true
	}
	reset := op.B == 1
	slow := time.Duration(op.D) // each successful callback takes this long
	type call struct {
		key  intermediate.FlowKey
		k    int
		vals map[string]string
		rdy  bool
		fill bool
	}
	var calls []call
	strict, exact := s.model.dueKeys(now)
	exactSet := map[int]bool{}
	for _, k := range exact {
		exactSet[k] = true
		s.env.Count("probe.scan_at_exact_deadline", 1)
	}
	var prevDeadline time.Time
	aborted := false
	err := s.ap.ForAllExpiredFlowRecordsDo(func(key intermediate.FlowKey, rec *intermediate.AggregationFlowRecord) error {
		idx := len(calls)
		c := call{key: key, k: -1, vals: map[string]string{}, rdy: rec.ReadyToSend, fill: s.ap.AreCorrelatedFieldsFilled(*rec)}
		for k := range s.keyCat {
			if aggKeyOf(k, s.keyV6[k]) == key {
				c.k = k
			}
		}
		calls = append(calls, c)
		f := s.model.Flows[c.k]
		where := fmt.Sprintf("op %d scan callback %d", i, idx)
		if f == nil {
			s.env.Violate("c06-callback-unknown-flow", "", "%s: callback for %v, which the model does not hold", where, key)
			return nil
		}
		if !f.Ready || !c.rdy {
			s.env.Violate("c07-exported-not-ready", "", "%s: key %d handed to the callback while not ready to send (%s)", where, c.k, f)
		}
		late := false
		if f.minDeadline().After(now) {
			// Not due when the scan began. With a callback that takes time (op.D) the deadline may have
			// passed since: handing such a flow over in this scan or leaving it for the next are both
			// "when its deadline has passed". What the process then did with it is read back afterwards
			// (fuzzy), and the held-iff-scheduled bijection is checked on that.
			if slow > 0 && !f.minDeadline().After(time.Now()) {
				late = true
				s.env.Count("probe.flow_became_due_during_scan_and_was_exported", 1)
			} else {
				s.env.Violate("c06-early-callback", "", "%s: key %d handed to the callback %v before its deadline (%s)", where, c.k, f.minDeadline().Sub(now), f)
			}
		}
		if idx > 0 && f.minDeadline().Before(prevDeadline) {
			s.env.Violate("c06-callback-order", "", "%s: key %d (deadline +%v) after a flow with the later deadline +%v", where, c.k, f.minDeadline().Sub(bubbleEpoch), prevDeadline.Sub(bubbleEpoch))
		}
		prevDeadline = f.minDeadline()
		if catNeedsCorrelation(f.Cat) && !c.fill {
			s.env.Violate("c07-not-marked-filled", "", "%s: correlated key %d exported but not marked filled", where, c.k)
		}
		s.compareFlow(f, func(name string) (string, bool) { return fieldStr(rec.Record, name) }, where)
		if fail[idx] {
			s.env.Count("fault.callback_error", 1)
			aborted = true
			return errInjected
		}
		if slow > 0 {
			s.env.Sleep(slow) // the export takes time
		}
		// model effect of a successful export
		switch {
		case late:
			f.Fuzzy = true
		case !f.Inactive.After(now):
			if f.Inactive.Equal(now) {
				f.Fuzzy = true // removed or kept: both readings of "has passed" are accepted, see below
			} else {
				delete(s.model.Flows, c.k)
			}
		case !f.Active.After(now):
			f.Active = now.Add(s.model.Active)
		}
		if reset {
			if e := s.ap.ResetStatAndThroughputElementsInRecord(rec.Record); e != nil {
				s.env.Violate("c05-reset-error", "", "%s: reset returned %v", where, e)
			}
			s.model.reset(c.k)
		}
		return nil
	})
	if aborted != (err != nil) {
		s.env.Violate("c06-scan-error", "", "op %d: scan returned err=%v, a callback failed=%v", i, err, aborted)
	}
	called := map[int]bool{}
	for _, c := range calls {
		if called[c.k] {
			s.env.Violate("c06-exported-twice", "", "op %d: key %d handed to the callback twice in one scan", i, c.k)
		}
		called[c.k] = true
	}
	// flows whose inactive deadline was exactly now and that were exported: follow the implementation
	for _, k := range s.model.sortedKeys() {
		f := s.model.Flows[k]
		if f.Fuzzy && called[k] && f.Inactive.Equal(now) {
			fk := aggKeyOf(k, s.keyV6[k])
			if len(s.ap.GetRecords(&fk)) == 0 {
				delete(s.model.Flows, k)
			} else {
				f.Fuzzy = false
			}
		}
	}
	if !aborted {
		for _, k := range strict {
			f := s.model.Flows[k]
			if f == nil || called[k] {
				continue
			}
			if f.Ready {
				if catNeedsCorrelation(f.Cat) {
					s.env.Violate("c07-correlated-not-exported", "", "op %d: key %d has been correlated (both sides seen) and is past its deadline by %v, but was not handed to the callback (%s)", i, k, now.Sub(f.minDeadline()), f)
				}
				s.env.Violate("c06-missed-expiry", "", "op %d: key %d is past its deadline by %v and ready, but was not handed to the callback (%s)", i, k, now.Sub(f.minDeadline()), f)
				continue
			}
			// not ready: retried a bounded number of times, then dropped without export
			f.Retries++
			s.env.Count("probe.not_ready_retry", 1)
			held, scheduled := s.heldScheduled(k)
			if f.Retries > s.model.MaxRetries {
				delete(s.model.Flows, k)
				s.env.Count("probe.not_ready_dropped", 1)
				if held {
					s.env.Violate("c07-not-dropped-after-retries", "", "op %d: key %d is still uncorrelated after %d expiries (MaxRetries %d) and must be dropped, but it is still held", i, k, f.Retries, s.model.MaxRetries)
				}
			} else {
				f.Active, f.Inactive = now.Add(s.model.Active), now.Add(s.model.Inactive)
				if !held || !scheduled {
					s.env.Violate("c07-retry-not-rescheduled", "", "op %d: key %d is uncorrelated at its deadline (retry %d of %d): it must stay held and be scheduled for another try, but held=%v scheduled=%v", i, k, f.Retries, s.model.MaxRetries, held, scheduled)
				}
			}
		}
		for _, k := range exact {
			if f := s.model.Flows[k]; f != nil && !called[k] && !f.Ready {
				f.Fuzzy = true // "has passed" at the exact instant: either reading, retry bookkeeping unknown
			} else if f != nil && !called[k] && f.Ready {
				// not exported at the exact instant: legal; nothing changes
				_ = f
			}
		}
	} else {
		// scan aborted by a callback error: not-ready flows that were due may or may not have been visited
		for _, k := range append(append([]int{}, strict...), exact...) {
			if f := s.model.Flows[k]; f != nil && !f.Ready {
				f.Fuzzy = true
			}
		}
	}
	s.env.Count("agg.scans", 1)
	s.env.Count("agg.exports", int64(len(calls)))
	s.env.Logf("op %d scan calls=%d err=%v", i, len(calls), err != nil)
}

// heldScheduled reports whether key k is in the map and whether it has a live queue entry.
func (s *aggSession) heldScheduled(k int) (held, scheduled bool) {
	fk := aggKeyOf(k, s.keyV6[k])
	_, mapItems := s.ap.VerifSnapshot()
	for _, it := range mapItems {
		if it.Key == fk {
			return true, it.ItemMatch
		}
	}
	return false, false
}

// resyncFuzzy drops the fuzzy mark where the implementation's state can be read back.
func (s *aggSession) resyncFuzzy() {
	_, mapItems := s.ap.VerifSnapshot()
	for _, k := range s.model.sortedKeys() {
		f := s.model.Flows[k]
		if !f.Fuzzy {
			continue
		}
		fk := aggKeyOf(k, s.keyV6[k])
		found := false
		for _, it := range mapItems {
			if it.Key == fk {
				found = true
				f.Retries, f.Active, f.Inactive = it.Retries, it.Active, it.Inactive
				f.Fuzzy = false
			}
		}
		if !found {
			delete(s.model.Flows, k)
		}
	}
}

func (s *aggSession) opResetAll(i int) {
	err := s.ap.ForAllRecordsDo(func(key intermediate.FlowKey, rec *intermediate.AggregationFlowRecord) error {
		return s.ap.ResetStatAndThroughputElementsInRecord(rec.Record)
	})
	if err != nil {
		s.env.Violate("c05-reset-error", "", "op %d: ForAllRecordsDo(reset) returned %v", i, err)
	}
	keys := make([]int, 0)
	for _, k := range s.model.sortedKeys() {
		keys = append(keys, k)
	}
	sort.Ints(keys)
	for _, k := range keys {
		s.model.reset(k)
	}
}

// Pool member (cfg pool=1): records go through the process's own worker pool (Start, message
// channel, two workers) instead of direct calls. Consecutive rec ops form a batch that is handed
// to the workers back to back, so the workers ingest concurrently (under the controlled
// scheduler, with preemptions); a batch holds at most one record per (key, node) stream because
// the pool does not keep two records of one stream in order. The model ingests the batch once the
// pool is idle again; its result does not depend on the order within such a batch.
func (s *aggSession) flushBatch(batch []aggRec, where string) {
	if len(batch) == 0 {
		return
	}
	now := time.Now()
	for _, r := range batch {
		msg := s.buildMessage(r, s.keyV6[r.Key])
		Block("feed", func() { s.msgCh <- msg })
		s.env.Count("agg.records_through_pool", 1)
	}
	s.env.Sleep(time.Nanosecond) // the clock moves only when both workers are idle again
	for _, r := range batch {
		s.model.ingest(r, now)
		s.env.Count("agg.records", 1)
	}
	// arrival instant is `now` for every record of the batch, but the Sleep moved the clock by 1 ns:
	// deadlines are relative to `now`
	s.checkAll(where)
}

func (s *aggSession) runPool(ops []plan.Op) {
	started := make(chan struct{})
	s.env.Go("pool", func() {
		close(started)
		s.ap.Start()
	})
	Block("pool-wait", func() { <-started })
	s.env.Sleep(time.Nanosecond)
	var batch []aggRec
	inBatch := map[[2]int]bool{}
	scratch := s.model.clone()
	flush := func(i int) {
		s.flushBatch(batch, fmt.Sprintf("after the batch before op %d", i))
		batch = nil
		inBatch = map[[2]int]bool{}
		scratch = s.model.clone()
	}
	for i, op := range ops {
		if op.K == "rec" {
			r := s.recOf(op)
			if r.Key < 0 || r.Key >= len(s.keyCat) {
				continue
			}
			k := [2]int{r.Key, r.Node}
			if inBatch[k] {
				flush(i)
			}
			if !scratch.ingest(r, time.Now()) {
				s.env.Count("agg.skipped_out_of_contract_record", 1)
				continue
			}
			inBatch[k] = true
			batch = append(batch, r)
			continue
		}
		flush(i)
		if len(s.env.Out.Violations) > 0 {
			break
		}
		switch op.K {
		case "adv":
			s.env.Sleep(time.Duration(op.A))
		case "scan":
			s.opScan(i, op)
			s.resyncFuzzy()
		case "resetall":
			s.opResetAll(i)
		}
		s.checkAll(fmt.Sprintf("after op %d (%s)", i, op.K))
		if len(s.env.Out.Violations) > 0 {
			break
		}
	}
	if len(s.env.Out.Violations) == 0 {
		flush(len(ops))
	}
	s.env.Sleep(time.Nanosecond)
	Block("pool-stop", func() { s.ap.Stop() })
}

func (s *aggSession) run(ops []plan.Op) {
	if cfgOr(s.env.Plan, "pool", 0) == 1 {
		s.runPool(ops)
		return
	}
	for i, op := range ops {
		switch op.K {
		case "rec":
			s.opRec(i, op)
		case "recs":
			s.opRecs(i, op)
		case "adv":
			s.env.Sleep(time.Duration(op.A))
		case "scan":
			s.opScan(i, op)
			s.resyncFuzzy()
		case "resetall":
			s.opResetAll(i)
		case "query":
			s.opQuery(op)
		}
		if s.fuzzyAccepted {
			return
		}
		s.checkAll(fmt.Sprintf("after op %d (%s)", i, op.K))
		if s.stopNow() {
			return
		}
	}
}

// opQuery asks for the records of all flows, or of those matching a partial key. Asking changes
// nothing: the checks after this operation, and after every later one, are the same as without it.
func (s *aggSession) opQuery(op plan.Op) {
	var fkp *intermediate.FlowKey
	switch {
	case op.A%3 == 1:
		fkp = &intermediate.FlowKey{Protocol: 6}
	case op.A%3 == 2 && len(s.keyV6) > 0:
		fkp = &intermediate.FlowKey{SourceAddress: aggKeyOf(0, s.keyV6[0]).SourceAddress}
	}
	recs := s.ap.GetRecords(fkp)
	s.env.Count("probe.query_all_or_partial_key", 1)
	if fkp == nil || (fkp.Protocol == 6 && aggKeyMode == 0) {
		if len(recs) != len(s.model.Flows) {
			s.env.Violate("c05-flow-count", "query", "GetRecords(%v) returned %d records, %d flows are held", fkp, len(recs), len(s.model.Flows))
		}
	}
}

// stopNow: the session ends at the first violation of one of this property's own clauses. A
// violation of a sibling property's clause (the three aggregation properties share the engine) is
// not reported by this check, and the defect behind it may well break this property's sentence a
// few operations later, so the session goes on (bounded).
func (s *aggSession) stopNow() bool {
	prefix := strings.ToLower(s.prop) + "-"
	for _, v := range s.env.Out.Violations {
		if strings.HasPrefix(v.Clause, prefix) || v.Clause == "panic" {
			return true
		}
	}
	return len(s.env.Out.Violations) > 12
}

// ---- snapshots for history-based checking (C13) ------------------------------

var aggSnapNames = func() []string {
	var n []string
	n = append(n, "flowEndSeconds")
	n = append(n, aggStats...)
	n = append(n, aggSrcStats...)
	n = append(n, aggDstStats...)
	n = append(n, aggEndSecs...)
	n = append(n, aggThr...)
	n = append(n, aggSrcThr...)
	n = append(n, aggDstThr...)
	n = append(n, "tcpState")
	return n
}()

// takeSnap reads the compared fields through get.
func takeSnap(get func(string) (string, bool)) map[string]string {
	m := map[string]string{}
	for _, n := range aggSnapNames {
		if v, ok := get(n); ok {
			m[n] = v
		} else {
			m[n] = "<missing>"
		}
	}
	return m
}

// expectedSnap is what the model says the compared fields are ("*" = either node's value is acceptable).
func expectedSnap(f *aggFlow) map[string]string {
	m := map[string]string{"flowEndSeconds": fmt.Sprint(f.End), "tcpState": f.TCP}
	tot := [4]int{0, 2, 3, 5}
	dlt := [2]int{1, 4}
	for i, idx := range tot {
		m[aggStats[idx]] = fmt.Sprint(f.Tot[i])
		m[aggSrcStats[idx]] = fmt.Sprint(f.N[0].Tot[i])
		m[aggDstStats[idx]] = fmt.Sprint(f.N[1].Tot[i])
	}
	for i, idx := range dlt {
		m[aggStats[idx]] = fmt.Sprint(f.Dlt[i])
		m[aggSrcStats[idx]] = fmt.Sprint(f.N[0].Delta[i])
		m[aggDstStats[idx]] = fmt.Sprint(f.N[1].Delta[i])
	}
	for i := range aggThr {
		m[aggThr[i]] = fmt.Sprint(f.Thr[i])
		m[aggSrcThr[i]] = fmt.Sprint(f.N[0].Thr[i])
		m[aggDstThr[i]] = fmt.Sprint(f.N[1].Thr[i])
	}
	m[aggEndSecs[0]] = fmt.Sprint(f.N[0].End)
	m[aggEndSecs[1]] = fmt.Sprint(f.N[1].End)
	if f.Ambig {
		for _, idx := range dlt {
			m[aggStats[idx]] = "*"
		}
		for i := range aggThr {
			m[aggThr[i]] = "*"
		}
		m["tcpState"] = "*"
	}
	return m
}

func snapDiff(want, got map[string]string) string {
	for _, n := range aggSnapNames {
		if want[n] != "*" && want[n] != got[n] {
			return fmt.Sprintf("%s = %s, sequential execution gives %s", n, got[n], want[n])
		}
	}
	return ""
}
