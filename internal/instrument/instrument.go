// Package instrument rewrites go-ipfix source files for simulation. It does
// exactly four mechanical things, all as byte splices at AST positions so that
// line numbers are preserved (the way `go tool cover` works):
//
//  1. selector rewrite net.Dial|net.Listen|net.ListenUDP|tls.Dial|tls.Listen|
//     dtls.Dial|dtls.Listen -> same-named functions of package simnet;
//  2. type rewrite sync.Mutex|sync.RWMutex -> simrt.Mutex|simrt.RWMutex;
//  3. simrt.Step(site) before every statement; simrt.Sync(site) before and after
//     every statement that can block or wake another goroutine (syntactic
//     over-approximation, see isSyncExpr); simrt.Branch(site) as first statement
//     of every select clause;
//  4. simrt.GoStart(site); defer simrt.GoExit() at the top of every
//     `go func(){...}()` literal.
//
// No expression is reordered and no statement is removed.
package instrument

import (
	"bytes"
	"fmt"
	"go/ast"
	"go/parser"
	"go/token"
	"path/filepath"
	"sort"
	"strings"
)

const (
	SimrtPath  = "github.com/vmware/go-ipfix/pkg/verifsim/simrt"
	SimnetPath = "github.com/vmware/go-ipfix/pkg/verifsim/simnet"
)

// Names of methods/functions whose call is treated as a scheduling point.
var syncCalls = map[string]bool{
	"Wait": true, "Sleep": true, "Read": true, "ReadFull": true, "Peek": true, "Write": true,
	"Accept": true, "Close": true, "ReadFromUDP": true, "ReadFrom": true, "WriteTo": true,
	"Handshake": true, "Stop": true, "Reset": true, "AfterFunc": true,
	"Dial": true, "Listen": true, "ListenUDP": true, "SendMessage": true,
}

var socketRewrites = map[string]map[string]bool{
	"net":  {"Dial": true, "Listen": true, "ListenUDP": true, "ResolveTCPAddr": true, "ResolveUDPAddr": true},
	"tls":  {"Dial": true, "Listen": true},
	"dtls": {"Dial": true, "Listen": true},
}

// Calls that would create a real socket and that the rewrite does not know.
var socketForbidden = map[string][]string{
	"net":  {"Dial", "Listen", "ListenUDP", "DialTimeout", "DialTCP", "DialUDP", "DialIP", "DialUnix", "ListenTCP", "ListenPacket", "ListenIP", "ListenUnix", "ListenUnixgram", "ListenMulticastUDP", "FileConn", "FileListener", "FilePacketConn", "LookupHost", "LookupIP", "LookupAddr", "LookupCNAME", "ResolveIPAddr"},
	"tls":  {"Dial", "Listen", "DialWithDialer"},
	"dtls": {"Dial", "Listen", "DialWithContext", "NewListener"},
}

type splice struct {
	off  int // byte offset in the original source
	del  int // bytes to delete at off
	text string
	seq  int
}

type Result struct {
	Src        []byte
	Steps      int
	Syncs      int
	Rewrites   int
	Unsim      []string // unsimulated socket calls found ("file:line: pkg.Func")
	Selects    int
	SyncReturn []string // return statements that contain a blocking operation (no after-sync possible)
	Sites      []string // every Step site ("pkg/file.go:line"), the denominator of the statement-reach measure
}

type inst struct {
	fset       *token.FileSet
	file       *ast.File
	src        []byte
	short      string
	splices    []splice
	seq        int
	pkgNames   map[string]string // local name -> import path
	res        *Result
	useSimrt   bool
	useNet     bool
	keep       []string
	addedLines int
	labeled    map[ast.Stmt]bool
}

// File instruments one source file. short is the site prefix (e.g. "collector/tcp.go").
// steps=false leaves out Step/Sync/Branch/GoStart (socket and mutex rewrites only).
func File(filename, short string, src []byte, steps bool) (*Result, error) {
	fset := token.NewFileSet()
	f, err := parser.ParseFile(fset, filename, src, parser.ParseComments)
	if err != nil {
		return nil, err
	}
	in := &inst{fset: fset, file: f, src: src, short: short, pkgNames: map[string]string{}, res: &Result{}}
	for _, imp := range f.Imports {
		path := strings.Trim(imp.Path.Value, `"`)
		name := filepath.Base(path)
		if strings.HasPrefix(name, "v") && len(name) <= 3 { // .../dtls/v2
			name = filepath.Base(filepath.Dir(path))
		}
		if imp.Name != nil {
			name = imp.Name.Name
		}
		in.pkgNames[name] = path
	}
	in.rewriteSelectors()
	if steps {
		for _, d := range f.Decls {
			if fd, ok := d.(*ast.FuncDecl); ok && fd.Body != nil {
				in.block(fd.Body)
			}
		}
		// function literals at package level (var x = func(){})
		for _, d := range f.Decls {
			if gd, ok := d.(*ast.GenDecl); ok {
				ast.Inspect(gd, func(n ast.Node) bool {
					if fl, ok := n.(*ast.FuncLit); ok {
						in.block(fl.Body)
						return false
					}
					return true
				})
			}
		}
	}
	in.imports()
	in.res.Src = in.apply()
	// sanity: result must parse
	if _, err := parser.ParseFile(token.NewFileSet(), filename, in.res.Src, 0); err != nil {
		return nil, fmt.Errorf("instrumented %s does not parse: %v", filename, err)
	}
	if bytes.Count(in.res.Src, []byte("\n")) != bytes.Count(src, []byte("\n"))+in.extraLines() {
		return nil, fmt.Errorf("instrumented %s changed line count", filename)
	}
	return in.res, nil
}

func (in *inst) extraLines() int { return in.addedLines }

func (in *inst) off(p token.Pos) int  { return in.fset.Position(p).Offset }
func (in *inst) line(p token.Pos) int { return in.fset.Position(p).Line }
func (in *inst) site(p token.Pos) string {
	return fmt.Sprintf("%s:%d", in.short, in.line(p))
}

func (in *inst) insert(off int, text string) {
	in.seq++
	in.splices = append(in.splices, splice{off: off, text: text, seq: in.seq})
}
func (in *inst) replace(off, n int, text string) {
	in.seq++
	in.splices = append(in.splices, splice{off: off, del: n, text: text, seq: in.seq})
}

func (in *inst) apply() []byte {
	sort.SliceStable(in.splices, func(i, j int) bool {
		if in.splices[i].off != in.splices[j].off {
			return in.splices[i].off < in.splices[j].off
		}
		return in.splices[i].seq < in.splices[j].seq
	})
	var out bytes.Buffer
	pos := 0
	for _, s := range in.splices {
		out.Write(in.src[pos:s.off])
		out.WriteString(s.text)
		pos = s.off + s.del
	}
	out.Write(in.src[pos:])
	return out.Bytes()
}

func (in *inst) isPkg(x ast.Expr, want string) bool {
	id, ok := x.(*ast.Ident)
	if !ok || id.Obj != nil { // Obj != nil: resolved to a local declaration, not an import
		return false
	}
	path, ok := in.pkgNames[id.Name]
	if !ok {
		return false
	}
	switch want {
	case "net":
		return path == "net"
	case "tls":
		return path == "crypto/tls"
	case "dtls":
		return strings.HasPrefix(path, "github.com/pion/dtls")
	case "sync":
		return path == "sync"
	}
	return false
}

func (in *inst) rewriteSelectors() {
	remaining := map[string]int{}
	ast.Inspect(in.file, func(n ast.Node) bool {
		sel, ok := n.(*ast.SelectorExpr)
		if !ok {
			return true
		}
		for _, pkg := range []string{"net", "tls", "dtls", "sync"} {
			if !in.isPkg(sel.X, pkg) {
				continue
			}
			if pkg == "sync" {
				if sel.Sel.Name == "Mutex" || sel.Sel.Name == "RWMutex" {
					in.replace(in.off(sel.X.Pos()), len(sel.X.(*ast.Ident).Name), "simrt")
					in.useSimrt = true
					in.res.Rewrites++
				} else {
					remaining[pkg]++
				}
				continue
			}
			if socketRewrites[pkg][sel.Sel.Name] {
				// pkg.Func -> simnet.PkgFunc
				in.replace(in.off(sel.Pos()), in.off(sel.End())-in.off(sel.Pos()), "simnet."+strings.ToUpper(pkg[:1])+pkg[1:]+sel.Sel.Name)
				in.useNet = true
				in.res.Rewrites++
				continue
			}
			for _, bad := range socketForbidden[pkg] {
				if sel.Sel.Name == bad {
					in.res.Unsim = append(in.res.Unsim, fmt.Sprintf("%s: %s.%s", in.site(sel.Pos()), pkg, bad))
				}
			}
			remaining[pkg]++
		}
		return true
	})
	in.keep = nil
	for _, pkg := range []string{"net", "tls", "dtls", "sync"} {
		for name := range in.pkgNames {
			if in.isPkgName(name, pkg) && remaining[pkg] == 0 && in.file.Name != nil {
				// every use was rewritten: keep the import alive
				sym := map[string]string{"net": "Conn", "tls": "Config", "dtls": "Config", "sync": "Locker"}[pkg]
				in.keep = append(in.keep, fmt.Sprintf("var _ %s.%s", name, sym))
			}
		}
	}
}

func (in *inst) isPkgName(name, want string) bool {
	return in.isPkg(&ast.Ident{Name: name}, want)
}

func (in *inst) imports() {
	var add []string
	if in.useSimrt || in.res.Steps > 0 || in.res.Syncs > 0 {
		add = append(add, `simrt "`+SimrtPath+`"`)
	}
	if in.useNet {
		add = append(add, `simnet "`+SimnetPath+`"`)
	}
	if len(add) > 0 {
		// Append to the last import spec's line.
		var last *ast.ImportSpec
		for _, imp := range in.file.Imports {
			last = imp
		}
		if last != nil {
			in.insert(in.off(last.End()), "; "+strings.Join(add, "; "))
			// If the import declaration is not parenthesised the splice would be invalid.
			for _, d := range in.file.Decls {
				if gd, ok := d.(*ast.GenDecl); ok && gd.Tok == token.IMPORT && !gd.Lparen.IsValid() {
					for _, sp := range gd.Specs {
						if sp == ast.Spec(last) {
							// rewrite `import "x"` -> `import ("x"; simrt "...")`
							in.splices = in.splices[:len(in.splices)-1]
							in.insert(in.off(last.Pos()), "(")
							in.insert(in.off(last.End()), "; "+strings.Join(add, "; ")+")")
						}
					}
				}
			}
		} else {
			// no imports at all: add a declaration after the package clause, same line
			in.insert(in.off(in.file.Name.End()), "; import ("+strings.Join(add, "; ")+")")
		}
	}
	if len(in.keep) > 0 {
		tail := "\n" + strings.Join(in.keep, "\n") + "\n"
		in.insert(len(in.src), tail)
		in.addedLines = strings.Count(tail, "\n")
	}
}

// ---- statements -----------------------------------------------------------

func isChanName(e ast.Expr) bool {
	var name string
	switch x := e.(type) {
	case *ast.Ident:
		name = x.Name
	case *ast.SelectorExpr:
		name = x.Sel.Name
	case *ast.CallExpr:
		return isChanName(x.Fun) // e.g. cp.GetMsgChan()
	default:
		return false
	}
	l := strings.ToLower(name)
	return strings.HasSuffix(l, "chan") || strings.HasSuffix(name, "Ch") || name == "C" || strings.HasSuffix(l, "channel")
}

// isSyncExpr reports whether evaluating n (not descending into function
// literals) may block or wake another goroutine.
func isSyncExpr(n ast.Node) bool {
	if n == nil {
		return false
	}
	found := false
	ast.Inspect(n, func(m ast.Node) bool {
		if found {
			return false
		}
		switch x := m.(type) {
		case *ast.FuncLit:
			return false
		case *ast.UnaryExpr:
			if x.Op == token.ARROW {
				found = true
			}
		case *ast.SendStmt:
			found = true
		case *ast.CallExpr:
			switch f := x.Fun.(type) {
			case *ast.SelectorExpr:
				if syncCalls[f.Sel.Name] {
					found = true
				}
			case *ast.Ident:
				if f.Name == "close" {
					found = true
				}
			}
		}
		return !found
	})
	return found
}

func isPanicCall(s ast.Stmt) bool {
	es, ok := s.(*ast.ExprStmt)
	if !ok {
		return false
	}
	c, ok := es.X.(*ast.CallExpr)
	if !ok {
		return false
	}
	id, ok := c.Fun.(*ast.Ident)
	return ok && id.Name == "panic"
}

func (in *inst) step(p token.Pos) {
	in.insert(in.off(p), fmt.Sprintf("simrt.Step(%q);", in.site(p)))
	in.res.Steps++
	in.res.Sites = append(in.res.Sites, in.site(p))
}
func (in *inst) syncBefore(p token.Pos) {
	in.insert(in.off(p), fmt.Sprintf("simrt.Sync(%q);", in.site(p)))
	in.res.Syncs++
}
func (in *inst) syncAfter(end token.Pos, at token.Pos) {
	in.insert(in.off(end), fmt.Sprintf(";simrt.Sync(%q)", in.site(at)+"'"))
	in.res.Syncs++
}
func (in *inst) syncAtBlockStart(b *ast.BlockStmt, at token.Pos) {
	if b == nil {
		return
	}
	in.insert(in.off(b.Lbrace)+1, fmt.Sprintf("simrt.Sync(%q);", in.site(at)+"'"))
	in.res.Syncs++
}

func (in *inst) block(b *ast.BlockStmt) {
	if b == nil {
		return
	}
	in.list(b.List)
}

func (in *inst) list(stmts []ast.Stmt) {
	for _, s := range stmts {
		in.stmt(s)
	}
}

// funcLits instruments the bodies of function literals that occur in n
// (excluding nested statements handled elsewhere).
func (in *inst) funcLits(n ast.Node, goLit *ast.FuncLit) {
	if n == nil {
		return
	}
	ast.Inspect(n, func(m ast.Node) bool {
		if fl, ok := m.(*ast.FuncLit); ok {
			if fl == goLit {
				in.insert(in.off(fl.Body.Lbrace)+1, fmt.Sprintf("simrt.GoStart(%q);defer simrt.GoExit();", in.site(fl.Pos())))
				in.res.Syncs++
			}
			in.block(fl.Body)
			return false
		}
		return true
	})
}

func (in *inst) stmt(s ast.Stmt) {
	switch x := s.(type) {
	case *ast.CaseClause, *ast.CommClause:
		// clauses are handled by their switch/select
		return
	case *ast.EmptyStmt:
		return
	case *ast.LabeledStmt:
		in.step(x.Pos())
		if in.labeled == nil {
			in.labeled = map[ast.Stmt]bool{}
		}
		in.labeled[x.Stmt] = true
		in.inner(x.Stmt)
		return
	}
	in.step(s.Pos())
	in.inner(s)
}

// inner instruments s without the leading Step.
func (in *inst) inner(s ast.Stmt) {
	switch x := s.(type) {
	case *ast.BlockStmt:
		in.block(x)
	case *ast.IfStmt:
		in.ifStmt(x, true)
	case *ast.ForStmt:
		hdr := isSyncExpr(x.Init) || isSyncExpr(x.Cond) || isSyncExpr(x.Post)
		if hdr {
			in.syncBefore(x.Pos())
			in.syncAtBlockStart(x.Body, x.Pos())
			if x.Cond != nil {
				in.syncAfter(x.End(), x.Pos())
			}
		}
		in.funcLits(x.Init, nil)
		in.funcLits(x.Cond, nil)
		in.funcLits(x.Post, nil)
		in.block(x.Body)
	case *ast.RangeStmt:
		if isChanName(x.X) || isSyncExpr(x.X) {
			in.syncBefore(x.Pos())
			in.syncAtBlockStart(x.Body, x.Pos())
			in.syncAfter(x.End(), x.Pos())
		}
		in.funcLits(x.X, nil)
		in.block(x.Body)
	case *ast.SwitchStmt:
		hdr := isSyncExpr(x.Init) || isSyncExpr(x.Tag)
		in.switchBody(x.Pos(), x.End(), x.Body, hdr)
		in.funcLits(x.Init, nil)
		in.funcLits(x.Tag, nil)
	case *ast.TypeSwitchStmt:
		hdr := isSyncExpr(x.Init) || isSyncExpr(x.Assign)
		in.switchBody(x.Pos(), x.End(), x.Body, hdr)
		in.funcLits(x.Init, nil)
		in.funcLits(x.Assign, nil)
	case *ast.SelectStmt:
		if !in.detSelect(x) {
			in.syncBefore(x.Pos())
		}
		for _, c := range x.Body.List {
			cc := c.(*ast.CommClause)
			in.insert(in.off(cc.Colon)+1, fmt.Sprintf("simrt.Branch(%q);", in.site(cc.Pos())))
			in.res.Syncs++
			in.funcLits(cc.Comm, nil)
			in.list(cc.Body)
		}
	case *ast.GoStmt:
		in.syncBefore(x.Pos())
		var lit *ast.FuncLit
		if fl, ok := x.Call.Fun.(*ast.FuncLit); ok {
			lit = fl
		}
		in.funcLits(x.Call, lit)
		in.syncAfter(x.End(), x.Pos())
	case *ast.DeferStmt:
		in.funcLits(x.Call, nil)
	case *ast.ReturnStmt:
		if isSyncExpr(x) {
			in.syncBefore(x.Pos())
			in.res.SyncReturn = append(in.res.SyncReturn, in.site(x.Pos()))
		}
		in.funcLits(x, nil)
	case *ast.BranchStmt:
	case *ast.LabeledStmt:
		in.inner(x.Stmt)
	default: // ExprStmt, AssignStmt, SendStmt, DeclStmt, IncDecStmt
		if isSyncExpr(s) {
			in.syncBefore(s.Pos())
			if !isPanicCall(s) {
				in.syncAfter(s.End(), s.Pos())
			}
		}
		in.funcLits(s, nil)
	}
}

// detSelect makes a select statement deterministic: every channel expression is evaluated
// once into a temporary (in source order, as the statement itself does), the temporaries are
// handed to simrt.Sel, and each case uses its temporary through simrt.MR / simrt.MS, which
// return nil for the cases that must not fire. Returns false (nothing done) for shapes it
// does not handle: labeled statements, channel expressions spanning lines, selects inside
// the header of another statement.
func (in *inst) detSelect(x *ast.SelectStmt) bool {
	if in.labeled[x] {
		return false
	}
	type cs struct {
		ch   ast.Expr
		send bool
	}
	var cases []cs
	for _, c := range x.Body.List {
		cc := c.(*ast.CommClause)
		switch st := cc.Comm.(type) {
		case nil: // default
		case *ast.SendStmt:
			cases = append(cases, cs{st.Chan, true})
		case *ast.ExprStmt:
			u, ok := st.X.(*ast.UnaryExpr)
			if !ok || u.Op != token.ARROW {
				return false
			}
			cases = append(cases, cs{u.X, false})
		case *ast.AssignStmt:
			if len(st.Rhs) != 1 {
				return false
			}
			u, ok := st.Rhs[0].(*ast.UnaryExpr)
			if !ok || u.Op != token.ARROW {
				return false
			}
			cases = append(cases, cs{u.X, false})
		default:
			return false
		}
	}
	if len(cases) == 0 || len(cases) > 60 {
		return false
	}
	for _, c := range cases {
		if in.line(c.ch.Pos()) != in.line(c.ch.End()) {
			return false
		}
	}
	id := in.off(x.Pos())
	var pre strings.Builder
	var args []string
	mask := uint64(0)
	for i, c := range cases {
		text := string(in.src[in.off(c.ch.Pos()):in.off(c.ch.End())])
		tmp := fmt.Sprintf("__c%d_%d", id, i)
		fmt.Fprintf(&pre, "%s := %s;", tmp, text)
		args = append(args, tmp)
		fn := "MR"
		if c.send {
			fn = "MS"
			mask |= 1 << uint(i)
		}
		in.replace(in.off(c.ch.Pos()), in.off(c.ch.End())-in.off(c.ch.Pos()), fmt.Sprintf("simrt.%s(__s%d, %d, %s)", fn, id, i, tmp))
	}
	fmt.Fprintf(&pre, "__s%d := simrt.Sel(%q, %d, %s);", id, in.site(x.Pos()), mask, strings.Join(args, ", "))
	in.insert(in.off(x.Pos()), pre.String())
	in.res.Syncs++
	in.res.Selects++
	return true
}

func (in *inst) ifStmt(x *ast.IfStmt, top bool) {
	hdr := isSyncExpr(x.Init) || isSyncExpr(x.Cond)
	if hdr {
		if top {
			in.syncBefore(x.Pos())
		}
		in.syncAtBlockStart(x.Body, x.Pos())
		switch e := x.Else.(type) {
		case *ast.BlockStmt:
			in.syncAtBlockStart(e, x.Pos())
		case *ast.IfStmt:
			// the else-if header runs after our header: park at both of its branches
			in.syncAtBlockStart(e.Body, x.Pos())
			if eb, ok := e.Else.(*ast.BlockStmt); ok {
				in.syncAtBlockStart(eb, x.Pos())
			}
		case nil:
			if top {
				in.syncAfter(x.End(), x.Pos())
			}
		}
	}
	in.funcLits(x.Init, nil)
	in.funcLits(x.Cond, nil)
	in.block(x.Body)
	switch e := x.Else.(type) {
	case *ast.BlockStmt:
		in.block(e)
	case *ast.IfStmt:
		in.ifStmt(e, false)
	}
}

func (in *inst) switchBody(pos, end token.Pos, body *ast.BlockStmt, hdr bool) {
	if hdr {
		in.syncBefore(pos)
	}
	hasDefault := false
	for _, c := range body.List {
		cc := c.(*ast.CaseClause)
		if cc.List == nil {
			hasDefault = true
		}
		if hdr {
			in.insert(in.off(cc.Colon)+1, fmt.Sprintf("simrt.Sync(%q);", in.site(pos)+"'"))
			in.res.Syncs++
		}
		for _, e := range cc.List {
			in.funcLits(e, nil)
		}
		in.list(cc.Body)
	}
	if hdr && !hasDefault {
		in.syncAfter(end, pos)
	}
}
