// Package plan defines the explicit, JSON-serialisable description of one
// simulated run (workload operations, fault directives, schedule), the outcome
// record, and the delta-debugging minimiser that works on plans.
package plan

import (
	"encoding/json"
	"fmt"
	"os"
	"sort"
)

// Op is one workload operation or fault directive. The meaning of the fields
// is defined per property (see the property's file in /verif/harness); generic
// code only drops or reorders whole ops and shrinks the integer lists.
type Op struct {
	K string  `json:"k"`           // kind
	T int     `json:"t,omitempty"` // task / client / node index
	A int64   `json:"a,omitempty"`
	B int64   `json:"b,omitempty"`
	C int64   `json:"c,omitempty"`
	D int64   `json:"d,omitempty"`
	S string  `json:"s,omitempty"`
	X string  `json:"x,omitempty"` // hex bytes
	N []int64 `json:"n,omitempty"` // integer list (cut points, delays, ids ...)
	F []Op    `json:"f,omitempty"` // fault directives attached to this op
}

// Sched is the schedule part of a plan.
type Sched struct {
	Seed   uint64 `json:"seed"`
	Sticky int    `json:"sticky"`
	// UnlockYield (percent): after releasing a mutex that others are waiting for, the releasing
	// task gives way with this probability (its own PRNG stream, so pinned replays agree)
	UnlockYield int   `json:"unlock_yield,omitempty"`
	Preempts    []int `json:"preempts,omitempty"`
	Choices     []int `json:"choices,omitempty"`
	Selects     []int `json:"selects,omitempty"` // pinned choices among ready select cases
	// PreemptFrac places preemptions relative to the length of the run: the runner first executes
	// the plan without preemptions to count its steps N, then preempts at frac*N (two-pass
	// placement; indices drawn blind mostly fall outside short runs). Replaced by Preempts
	// before the plan is journalled.
	PreemptFrac []float64 `json:"preempt_frac,omitempty"`
}

// Plan is one run.
type Plan struct {
	Prop  string            `json:"prop"`
	Seed  uint64            `json:"seed"`
	Tier  string            `json:"tier,omitempty"`
	Mode  string            `json:"mode"` // "sim" (baton scheduler) | "race" (race-detector layer) | "plain" (no bubble)
	Cfg   map[string]int64  `json:"cfg,omitempty"`
	CfgS  map[string]string `json:"cfgs,omitempty"`
	Ops   []Op              `json:"ops"`
	Sched Sched             `json:"sched"`
	Note  string            `json:"note,omitempty"`
}

func (p *Plan) Clone() *Plan {
	b, _ := json.Marshal(p)
	var q Plan
	json.Unmarshal(b, &q)
	return &q
}

func (p *Plan) JSON() []byte {
	b, _ := json.MarshalIndent(p, "", " ")
	return b
}

func Load(path string) (*Plan, error) {
	b, err := os.ReadFile(path)
	if err != nil {
		return nil, err
	}
	var f ReplayFile
	if err := json.Unmarshal(b, &f); err == nil && f.Plan != nil {
		return f.Plan, nil
	}
	var p Plan
	if err := json.Unmarshal(b, &p); err != nil {
		return nil, err
	}
	return &p, nil
}

// Violation is one oracle failure.
type Violation struct {
	Prop   string `json:"prop"`
	Clause string `json:"clause"` // oracle clause, stable identifier
	Loc    string `json:"loc,omitempty"`
	Detail string `json:"detail"`
}

// Sig is the signature used to decide "same violation" during minimisation and
// for matching known findings.
func (v Violation) Sig() string {
	if v.Loc != "" {
		return v.Prop + ":" + v.Clause + "@" + v.Loc
	}
	return v.Prop + ":" + v.Clause
}

// Outcome of one run.
type Outcome struct {
	Violations []Violation      `json:"violations,omitempty"`
	Hash       string           `json:"hash"`              // event-log hash
	Counters   map[string]int64 `json:"counters"`          // faults fired, probes, steps, ...
	SimNanos   int64            `json:"sim_nanos"`         // simulated time covered
	Trouble    string           `json:"trouble,omitempty"` // harness trouble (never a violation)
	Nontrivial bool             `json:"nontrivial"`
	Log        []string         `json:"log,omitempty"`
	Choices    []int            `json:"choices,omitempty"` // schedule choices actually taken
	Selects    []int            `json:"selects,omitempty"` // select choices actually taken
	Sample     any              `json:"sample,omitempty"`  // human-readable summary of what the run did
}

func (o *Outcome) Add(k string, n int64) {
	if o.Counters == nil {
		o.Counters = map[string]int64{}
	}
	o.Counters[k] += n
}

func (o *Outcome) Violate(prop, clause, loc, format string, a ...any) {
	o.Violations = append(o.Violations, Violation{Prop: prop, Clause: clause, Loc: loc, Detail: fmt.Sprintf(format, a...)})
}

// First returns the signature of the first violation ("" if none).
func (o *Outcome) First() string {
	if len(o.Violations) == 0 {
		return ""
	}
	return o.Violations[0].Sig()
}

// Has reports whether the outcome contains a violation with signature sig.
func (o *Outcome) Has(sig string) bool {
	for _, v := range o.Violations {
		if v.Sig() == sig {
			return true
		}
	}
	return false
}

// ReplayFile is what is written to /verif/replays.
type ReplayFile struct {
	Property   string    `json:"property"`
	Signature  string    `json:"signature"`
	Violation  Violation `json:"violation"`
	Seed       uint64    `json:"seed"`
	Plan       *Plan     `json:"plan"`
	Hash       string    `json:"event_log_hash"`
	Original   *Plan     `json:"original_plan,omitempty"`
	Minimised  bool      `json:"minimised"`
	Reruns     int       `json:"minimiser_reruns"`
	ReplayRate string    `json:"replay_rate,omitempty"`
	Log        []string  `json:"event_log,omitempty"`
	HowTo      string    `json:"how_to_replay"`
}

// ---------------------------------------------------------------------------
// minimisation (delta debugging over explicit plans)

// Minimise shrinks p while run(candidate) still yields a violation with
// signature sig. budget bounds the number of re-runs.
func Minimise(p *Plan, sig string, budget int, run func(*Plan) *Outcome, extra func(*Plan) []*Plan) (*Plan, int) {
	best := p.Clone()
	runs := 0
	try := func(c *Plan) bool {
		if runs >= budget {
			return false
		}
		runs++
		o := run(c)
		return o != nil && o.Trouble == "" && o.Has(sig)
	}
	// 1. ops: remove chunks, halving
	for n := len(best.Ops) / 2; n >= 1; {
		removed := false
		for i := 0; i+n <= len(best.Ops); {
			c := best.Clone()
			c.Ops = append(append([]Op(nil), best.Ops[:i]...), best.Ops[i+n:]...)
			if try(c) {
				best = c
				removed = true
			} else {
				i += n
			}
			if runs >= budget {
				break
			}
		}
		if runs >= budget {
			break
		}
		if !removed || n > len(best.Ops)/2 {
			n /= 2
		}
		if n > len(best.Ops) {
			n = len(best.Ops)
		}
	}
	// 2. fault directives attached to ops
	for i := 0; i < len(best.Ops) && runs < budget; i++ {
		for len(best.Ops[i].F) > 0 && runs < budget {
			c := best.Clone()
			c.Ops[i].F = c.Ops[i].F[:len(c.Ops[i].F)-1]
			if !try(c) {
				break
			}
			best = c
		}
	}
	// 3. preemptions
	for i := 0; i < len(best.Sched.Preempts) && runs < budget; {
		c := best.Clone()
		c.Sched.Preempts = append(append([]int(nil), best.Sched.Preempts[:i]...), best.Sched.Preempts[i+1:]...)
		if try(c) {
			best = c
		} else {
			i++
		}
	}
	// 4. pinned choices -> 0, from the end; then truncate
	if len(best.Sched.Choices) > 0 && runs < budget {
		c := best.Clone()
		for i := range c.Sched.Choices {
			c.Sched.Choices[i] = 0
		}
		if try(c) {
			best = c
		} else {
			for i := len(best.Sched.Choices) - 1; i >= 0 && runs < budget; i-- {
				if best.Sched.Choices[i] == 0 {
					continue
				}
				c := best.Clone()
				c.Sched.Choices[i] = 0
				if try(c) {
					best = c
				}
			}
		}
	}
	// 5. property-specific simplifications
	if extra != nil {
		for progress := true; progress && runs < budget; {
			progress = false
			for _, c := range extra(best) {
				if runs >= budget {
					break
				}
				if try(c) {
					best = c
					progress = true
					break
				}
			}
		}
	}
	return best, runs
}

// SortedKeys returns the keys of a counter map in order.
func SortedKeys(m map[string]int64) []string {
	ks := make([]string, 0, len(m))
	for k := range m {
		ks = append(ks, k)
	}
	sort.Strings(ks)
	return ks
}
