package simrt

import "sync"

// Mutex replaces sync.Mutex in instrumented code. In ModeSim it is a channel
// based lock: a waiter blocks on a channel created inside the bubble (durably
// blocked, so synctest.Wait keeps working while the holder is parked) and after
// every unlock all waiters become scheduling candidates again, so the scheduler
// decides who gets the lock. In the other modes it is a plain sync.Mutex, so a
// -race build sees exactly the happens-before edges the original code has.
type Mutex struct {
	real    sync.Mutex
	g       sync.Mutex
	held    bool
	waiters []chan struct{}
}

func (m *Mutex) Lock() {
	if mode.Load() != ModeSim {
		if mode.Load() == ModeRace {
			perturb()
		}
		m.real.Lock()
		return
	}
	Sync("mutex.Lock")
	for {
		m.g.Lock()
		if !m.held {
			m.held = true
			m.g.Unlock()
			return
		}
		ch := make(chan struct{})
		m.waiters = append(m.waiters, ch)
		m.g.Unlock()
		<-ch
		Sync("mutex.Lock.retry")
	}
}

func (m *Mutex) TryLock() bool {
	if mode.Load() != ModeSim {
		return m.real.TryLock()
	}
	m.g.Lock()
	defer m.g.Unlock()
	if m.held {
		return false
	}
	m.held = true
	return true
}

func (m *Mutex) Unlock() {
	if mode.Load() != ModeSim {
		m.real.Unlock()
		if mode.Load() == ModeRace {
			perturb()
		}
		return
	}
	m.g.Lock()
	if !m.held {
		m.g.Unlock()
		panic("simrt: unlock of unlocked Mutex")
	}
	m.held = false
	ws := m.waiters
	m.waiters = nil
	m.g.Unlock()
	for _, ch := range ws {
		close(ch)
	}
	if len(ws) > 0 {
		unlockYield("mutex.Unlock.yield")
	}
}

// RWMutex replaces sync.RWMutex in instrumented code; see Mutex.
type RWMutex struct {
	real    sync.RWMutex
	g       sync.Mutex
	writer  bool
	readers int
	// wwait counts goroutines blocked in Lock. As with sync.RWMutex a blocked Lock call excludes
	// new readers (so a recursive RLock with a writer waiting in between deadlocks, as it does
	// with the real type).
	wwait   int
	waiters []chan struct{}
}

func (m *RWMutex) wait(site string) {
	ch := make(chan struct{})
	m.waiters = append(m.waiters, ch)
	m.g.Unlock()
	<-ch
	Sync(site)
}

func (m *RWMutex) wake() {
	ws := m.waiters
	m.waiters = nil
	m.g.Unlock()
	for _, ch := range ws {
		close(ch)
	}
	if len(ws) > 0 {
		unlockYield("rwmutex.Unlock.yield")
	}
}

func (m *RWMutex) Lock() {
	if mode.Load() != ModeSim {
		if mode.Load() == ModeRace {
			perturb()
		}
		m.real.Lock()
		return
	}
	Sync("rwmutex.Lock")
	waiting := false
	for {
		m.g.Lock()
		if !m.writer && m.readers == 0 {
			m.writer = true
			if waiting {
				m.wwait--
			}
			m.g.Unlock()
			return
		}
		if !waiting {
			waiting = true
			m.wwait++
		}
		m.wait("rwmutex.Lock.retry")
	}
}

func (m *RWMutex) Unlock() {
	if mode.Load() != ModeSim {
		m.real.Unlock()
		if mode.Load() == ModeRace {
			perturb()
		}
		return
	}
	m.g.Lock()
	if !m.writer {
		m.g.Unlock()
		panic("simrt: unlock of unlocked RWMutex")
	}
	m.writer = false
	m.wake()
}

func (m *RWMutex) RLock() {
	if mode.Load() != ModeSim {
		if mode.Load() == ModeRace {
			perturb()
		}
		m.real.RLock()
		return
	}
	Sync("rwmutex.RLock")
	for {
		m.g.Lock()
		if !m.writer && m.wwait == 0 {
			m.readers++
			m.g.Unlock()
			return
		}
		m.wait("rwmutex.RLock.retry")
	}
}

func (m *RWMutex) RUnlock() {
	if mode.Load() != ModeSim {
		m.real.RUnlock()
		if mode.Load() == ModeRace {
			perturb()
		}
		return
	}
	m.g.Lock()
	if m.readers <= 0 {
		m.g.Unlock()
		panic("simrt: RUnlock of unlocked RWMutex")
	}
	m.readers--
	m.wake()
}

func (m *RWMutex) TryLock() bool {
	if mode.Load() != ModeSim {
		return m.real.TryLock()
	}
	m.g.Lock()
	defer m.g.Unlock()
	if m.writer || m.readers > 0 {
		return false
	}
	m.writer = true
	return true
}

func (m *RWMutex) TryRLock() bool {
	if mode.Load() != ModeSim {
		return m.real.TryRLock()
	}
	m.g.Lock()
	defer m.g.Unlock()
	if m.writer || m.wwait > 0 {
		return false
	}
	m.readers++
	return true
}

// RLocker mirrors sync.RWMutex.RLocker.
func (m *RWMutex) RLocker() sync.Locker { return rlocker{m} }

type rlocker struct{ m *RWMutex }

func (r rlocker) Lock()   { r.m.RLock() }
func (r rlocker) Unlock() { r.m.RUnlock() }
