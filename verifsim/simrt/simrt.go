// Package simrt is the runtime half of the deterministic simulator: a "baton"
// scheduler that serialises every goroutine of the instrumented go-ipfix
// packages (and the harness tasks) inside one testing/synctest bubble, and the
// entry points that the source instrumenter (internal/instrument) splices into
// the repository code: Step, Sync, Branch, GoStart, GoExit, Mutex, RWMutex.
//
// Exactly one task runs at a time. Tasks park at scheduling points; the bubble's
// root goroutine (Sim.Run) waits with synctest.Wait until every goroutine is
// durably blocked, sorts the parked tasks by their deterministic ids and lets a
// seeded PRNG (or a pinned choice list from a replay file) pick the next one.
// When nothing is parked the root blocks, which lets the bubble's fake clock
// jump to the next timer.
//
// This package lives in /verif/verifsim/simrt and is compiled, through go's
// -overlay, as github.com/vmware/go-ipfix/pkg/verifsim/simrt.
package simrt

import (
	"fmt"
	"hash/fnv"
	"math/rand/v2"
	"runtime"
	"sort"
	"sync"
	"sync/atomic"
	"testing/synctest"
	"time"
	"unsafe"
)

// Mode of the process. Set once, before any simulation starts.
//
//	ModeOff:  instrumentation is inert (Step/Sync return at once, Mutex is sync.Mutex).
//	ModeSim:  baton scheduling; Mutex/RWMutex are channel based (durably blocking).
//	ModeRace: no parking; Step/Sync occasionally call runtime.Gosched (no
//	          happens-before edge), Mutex is sync.Mutex. Used with -race builds.
const (
	ModeOff = iota
	ModeSim
	ModeRace
)

var mode atomic.Int32

// SetMode selects the process mode. Call before starting goroutines that use simrt.
func SetMode(m int) { mode.Store(int32(m)) }

// GetMode returns the process mode.
func GetMode() int { return int(mode.Load()) }

var cur atomic.Pointer[Sim]

// race-mode perturbation state
var (
	perturbSeed atomic.Uint64
	perturbCtr  atomic.Uint64
	perturbRate atomic.Uint64 // one Gosched per perturbRate points (0 = never)
)

// SetPerturb configures race-mode scheduling perturbation.
func SetPerturb(seed uint64, oneIn uint64) {
	perturbSeed.Store(seed)
	perturbCtr.Store(0)
	perturbRate.Store(oneIn)
}

func perturb() {
	r := perturbRate.Load()
	if r == 0 {
		return
	}
	n := perturbCtr.Add(1)
	x := (n + perturbSeed.Load()) * 0x9E3779B97F4A7C15
	x ^= x >> 29
	x *= 0xBF58476D1CE4E5B9
	x ^= x >> 32
	if x%r == 0 {
		runtime.Gosched()
	}
}

// Config of one simulated run.
type Config struct {
	Seed     uint64 // PRNG seed for choices that are not pinned
	Choices  []int  // pinned choices, consumed in order at decisions with >1 ready task
	Preempts []int  // dynamic Step indices at which the running task is preempted (sorted)
	Selects  []int  // pinned choices among the ready cases of select statements
	Sticky   int    // 0..100: probability (percent) of continuing with the task that ran last when it is ready
	// UnlockYield 0..100: probability (percent) that a task which has just released a mutex others
	// are waiting for gives way at once. The window right after an unlock is where "one more thing
	// done outside the lock" goes wrong, and a task otherwise keeps running until it next blocks.
	UnlockYield int
	MaxSteps    int64 // abort the run when more Step calls than this were made (0 = 2e6)
	MaxSyncs    int64 // abort the run after this many scheduling decisions (0 = 2e6)
	Idle        time.Duration
	// KeepLog retains the textual event log (replay / debugging); the hash is always kept.
	KeepLog bool
}

type task struct {
	id     string
	gid    uint64
	resume chan struct{}
	site   string
	ready  bool
	main   bool // harness task: Run returns when all of these have exited
	exited bool
}

// Sim is one simulated run.
type Sim struct {
	cfg  Config
	rng  *rand.Rand
	yrng *rand.Rand // unlock-yield decisions: a stream of its own (pinned replays do not draw from rng)

	mu      sync.Mutex
	tasks   map[uint64]*task // by goroutine id
	ready   map[string]*task
	ordinal map[string]int
	mains   int
	last    string
	freeRun bool

	notify  chan struct{}
	rootGID uint64

	steps       atomic.Int64
	nextPreempt atomic.Int64
	preIdx      int
	aborted     atomic.Pointer[string]

	// results
	Stats      Stats
	ChoicesLog []int
	SelectLog  []int
	hash       uint64
	log        []string
}

// Stats of a run.
type Stats struct {
	Steps         int64
	Syncs         int64
	Decisions     int64 // scheduling decisions with more than one ready task
	MaxReady      int
	Preempted     int
	SelectChoices int
	Tasks         int
	IdleWaits     int
	SimElapsed    time.Duration
}

// New creates a simulation and installs it as the current one. Must be called
// from inside a synctest bubble by the goroutine that will call Run.
func New(cfg Config) *Sim {
	if cfg.MaxSteps == 0 {
		cfg.MaxSteps = 2_000_000
	}
	if cfg.MaxSyncs == 0 {
		cfg.MaxSyncs = 2_000_000
	}
	if cfg.Idle == 0 {
		cfg.Idle = 24 * time.Hour
	}
	s := &Sim{
		cfg:     cfg,
		rng:     rand.New(rand.NewPCG(cfg.Seed, 0x5eed)),
		yrng:    rand.New(rand.NewPCG(cfg.Seed, 0x7e1d)),
		tasks:   map[uint64]*task{},
		ready:   map[string]*task{},
		ordinal: map[string]int{},
		notify:  make(chan struct{}, 1),
		hash:    14695981039346656037,
		rootGID: goid(),
	}
	sort.Ints(s.cfg.Preempts)
	s.armPreempt()
	selfCheckSelect()
	cur.Store(s)
	return s
}

func (s *Sim) armPreempt() {
	for s.preIdx < len(s.cfg.Preempts) && int64(s.cfg.Preempts[s.preIdx]) <= s.steps.Load() {
		s.preIdx++
	}
	if s.preIdx < len(s.cfg.Preempts) {
		s.nextPreempt.Store(int64(s.cfg.Preempts[s.preIdx]))
	} else {
		s.nextPreempt.Store(-1)
	}
}

// Current returns the installed simulation or nil.
func Current() *Sim { return cur.Load() }

func goid() uint64 {
	var buf [40]byte
	n := runtime.Stack(buf[:], false)
	// "goroutine 123 ["
	var id uint64
	for i := 10; i < n; i++ {
		c := buf[i]
		if c < '0' || c > '9' {
			break
		}
		id = id*10 + uint64(c-'0')
	}
	return id
}

// Logf appends an event to the run's event log (hashed; retained if KeepLog).
// It never draws randomness and never reads a clock.
func (s *Sim) Logf(format string, args ...any) {
	var line string
	if len(args) == 0 {
		line = format
	} else {
		line = fmt.Sprintf(format, args...)
	}
	s.mu.Lock()
	s.logLocked(line)
	s.mu.Unlock()
}

func (s *Sim) logLocked(line string) {
	h := fnv.New64a()
	var b [8]byte
	for i := 0; i < 8; i++ {
		b[i] = byte(s.hash >> (8 * i))
	}
	h.Write(b[:])
	h.Write([]byte(line))
	s.hash = h.Sum64()
	if s.cfg.KeepLog {
		s.log = append(s.log, line)
	}
}

// Logf logs to the current simulation, if any.
func Logf(format string, args ...any) {
	if s := cur.Load(); s != nil {
		s.Logf(format, args...)
	}
}

// Hash returns the event-log hash so far.
func (s *Sim) Hash() uint64 { s.mu.Lock(); defer s.mu.Unlock(); return s.hash }

// Log returns the retained event log.
func (s *Sim) Log() []string {
	s.mu.Lock()
	defer s.mu.Unlock()
	return append([]string(nil), s.log...)
}

// Aborted reports why the run was aborted ("" if it was not).
func (s *Sim) Aborted() string {
	if p := s.aborted.Load(); p != nil {
		return *p
	}
	return ""
}

func (s *Sim) abort(why string) {
	s.aborted.CompareAndSwap(nil, &why)
	select {
	case s.notify <- struct{}{}:
	default:
	}
}

// register creates a task for the calling goroutine. Caller holds s.mu.
func (s *Sim) registerLocked(gid uint64, base string, main bool) *task {
	n := s.ordinal[base]
	s.ordinal[base] = n + 1
	t := &task{id: fmt.Sprintf("%s#%d", base, n), gid: gid, resume: make(chan struct{}, 1), main: main}
	s.tasks[gid] = t
	s.Stats.Tasks++
	if main {
		s.mains++
	}
	return t
}

// park makes the calling task a scheduling candidate and blocks until chosen.
func (s *Sim) park(t *task, site string) {
	if t == nil {
		return
	}
	s.mu.Lock()
	if s.freeRun {
		s.mu.Unlock()
		return
	}
	t.site = site
	t.ready = true
	s.ready[t.id] = t
	s.Stats.Syncs++
	s.mu.Unlock()
	select {
	case s.notify <- struct{}{}:
	default:
	}
	<-t.resume
}

func (s *Sim) me(autoBase string) *task {
	g := goid()
	if g == s.rootGID {
		return nil // the scheduler's own goroutine never parks
	}
	s.mu.Lock()
	t := s.tasks[g]
	if t == nil {
		t = s.registerLocked(g, "ext:"+autoBase, false)
	}
	s.mu.Unlock()
	return t
}

// Go starts a harness task. Run returns once every harness task has exited.
// May be called before Run (by the root) or from a running task.
func (s *Sim) Go(name string, f func()) {
	s.mu.Lock()
	s.mains++ // count before the goroutine exists so Run cannot miss it
	s.mu.Unlock()
	go func() {
		g := goid()
		s.mu.Lock()
		t := s.registerLocked(g, "task:"+name, false)
		t.main = true // already counted in s.mains by Go
		s.mu.Unlock()
		s.park(t, "start")
		defer s.exit(t)
		f()
	}()
}

func (s *Sim) exit(t *task) {
	s.mu.Lock()
	t.exited = true
	delete(s.tasks, t.gid)
	if t.main {
		s.mains--
	}
	s.mu.Unlock()
	select {
	case s.notify <- struct{}{}:
	default:
	}
}

// Run is the scheduler loop. It must be called by the bubble's root goroutine.
// It returns when all harness tasks have exited, or the run was aborted, or
// nothing became runnable for cfg.Idle of simulated time ("stuck").
func (s *Sim) Run() (outcome string) {
	start := time.Now()
	defer func() {
		s.Stats.Steps = s.steps.Load()
		s.Stats.SimElapsed = time.Since(start)
		s.release()
	}()
	idle := time.NewTimer(s.cfg.Idle)
	defer idle.Stop()
	for {
		synctest.Wait()
		if why := s.Aborted(); why != "" {
			return why
		}
		s.mu.Lock()
		if len(s.ready) == 0 {
			done := s.mains == 0
			s.mu.Unlock()
			if done {
				return "done"
			}
			// Nothing runnable: block so that the fake clock can advance.
			s.Stats.IdleWaits++
			if !idle.Stop() {
				select {
				case <-idle.C:
				default:
				}
			}
			idle.Reset(s.cfg.Idle)
			select {
			case <-s.notify:
			case <-idle.C:
				return "stuck"
			}
			continue
		}
		ids := make([]string, 0, len(s.ready))
		for id := range s.ready {
			ids = append(ids, id)
		}
		sort.Strings(ids)
		if len(ids) > s.Stats.MaxReady {
			s.Stats.MaxReady = len(ids)
		}
		pick := 0
		if len(ids) > 1 {
			s.Stats.Decisions++
			k := len(s.ChoicesLog)
			if k < len(s.cfg.Choices) {
				pick = s.cfg.Choices[k] % len(ids)
				if pick < 0 {
					pick = 0
				}
			} else {
				pick = -1
				if s.cfg.Sticky > 0 && s.last != "" && int(s.rng.Uint64()%100) < s.cfg.Sticky {
					for i, id := range ids {
						if id == s.last {
							pick = i
						}
					}
				}
				if pick < 0 {
					pick = int(s.rng.Uint64() % uint64(len(ids)))
				}
			}
			s.ChoicesLog = append(s.ChoicesLog, pick)
		}
		t := s.ready[ids[pick]]
		delete(s.ready, t.id)
		t.ready = false
		s.last = t.id
		s.logLocked("run " + t.id + " @" + t.site)
		over := s.Stats.Syncs > s.cfg.MaxSyncs
		s.mu.Unlock()
		if over {
			s.abort("synclimit")
			return "synclimit"
		}
		t.resume <- struct{}{}
	}
}

// release switches to free-running mode: every parked task is resumed and no
// further scheduling point parks. Used when the run is over.
func (s *Sim) release() {
	s.mu.Lock()
	s.freeRun = true
	var ts []*task
	for _, t := range s.ready {
		ts = append(ts, t)
	}
	s.ready = map[string]*task{}
	s.mu.Unlock()
	cur.CompareAndSwap(s, nil)
	for _, t := range ts {
		select {
		case t.resume <- struct{}{}:
		default:
		}
	}
}

// ---- entry points used by instrumented code -------------------------------

// ---- statement reach -------------------------------------------------------
//
// Every Step site is a string constant of the instrumented source; the address of its bytes identifies
// the statement. A fixed open-addressing table of those addresses records which statements of the
// library this process has executed (all modes). Nothing here draws from a PRNG or reads a clock.

const siteTabSize = 1 << 14

var (
	siteTab   [siteTabSize]atomic.Uintptr
	siteMu    sync.Mutex
	siteNames []string
)

func siteHit(site string) {
	if len(site) == 0 {
		return
	}
	p := uintptr(unsafe.Pointer(unsafe.StringData(site)))
	i := (p >> 2) * 0x9E3779B1 >> 7 & (siteTabSize - 1)
	for n := 0; n < siteTabSize; n++ {
		v := siteTab[i].Load()
		if v == p {
			return
		}
		if v == 0 {
			siteMu.Lock()
			if siteTab[i].Load() == 0 {
				siteTab[i].Store(p)
				siteNames = append(siteNames, site)
				siteMu.Unlock()
				return
			}
			siteMu.Unlock()
			continue // somebody took the slot: look at it again
		}
		i = (i + 1) & (siteTabSize - 1)
	}
}

// SitesReached returns the Step sites executed by this process so far (sorted, without duplicates).
func SitesReached() []string {
	siteMu.Lock()
	out := append([]string(nil), siteNames...)
	siteMu.Unlock()
	sort.Strings(out)
	j := 0
	for i, s := range out {
		if i == 0 || s != out[i-1] {
			out[j] = s
			j++
		}
	}
	return out[:j]
}

// Step is spliced in before every statement of the instrumented packages.
func Step(site string) {
	siteHit(site)
	s := cur.Load()
	if s == nil {
		if mode.Load() == ModeRace {
			perturb()
		} else if budgetOn.Load() {
			budgetStep()
		}
		return
	}
	n := s.steps.Add(1)
	if n == s.nextPreempt.Load() {
		s.mu.Lock()
		s.preIdx++
		s.Stats.Preempted++
		s.armPreemptLocked()
		s.mu.Unlock()
		s.park(s.me(site), "pre:"+site)
		return
	}
	if n > s.cfg.MaxSteps {
		s.abort("steplimit")
		select {} // durably blocked for the rest of the bubble
	}
}

func (s *Sim) armPreemptLocked() {
	if s.preIdx < len(s.cfg.Preempts) {
		s.nextPreempt.Store(int64(s.cfg.Preempts[s.preIdx]))
	} else {
		s.nextPreempt.Store(-1)
	}
}

// unlockYield is called by the mutexes after an unlock that woke waiters.
func unlockYield(site string) {
	s := cur.Load()
	if s == nil || s.cfg.UnlockYield <= 0 {
		return
	}
	s.mu.Lock()
	yes := int(s.yrng.Uint64()%100) < s.cfg.UnlockYield
	s.mu.Unlock()
	if yes {
		Sync(site)
	}
}

// Sync is spliced in before and after every statement that can block or wake
// another goroutine. It always parks.
func Sync(site string) {
	s := cur.Load()
	if s == nil {
		if mode.Load() == ModeRace {
			perturb()
		}
		return
	}
	s.park(s.me(site), site)
}

// Branch is the first statement of every select clause: it records which
// clause the runtime took and parks.
func Branch(site string) {
	s := cur.Load()
	if s == nil {
		return
	}
	t := s.me(site)
	if t == nil {
		return
	}
	// The clause taken is logged by the scheduler when the task is next run (the task reaches
	// this point in the short window between being woken and parking, concurrently with the
	// baton holder: logging here would make the position of the line depend on real timing).
	s.park(t, "branch:"+site)
}

// GoStart is the first statement of every `go func(){...}()` literal body.
func GoStart(site string) {
	s := cur.Load()
	if s == nil {
		return
	}
	g := goid()
	if g == s.rootGID {
		return
	}
	s.mu.Lock()
	t := s.tasks[g]
	if t == nil {
		t = s.registerLocked(g, "go:"+site, false)
	}
	s.mu.Unlock()
	s.park(t, "gostart:"+site)
}

// GoExit is deferred right after GoStart.
func GoExit() {
	s := cur.Load()
	if s == nil {
		return
	}
	g := goid()
	s.mu.Lock()
	if t := s.tasks[g]; t != nil {
		t.exited = true
		delete(s.tasks, g)
	}
	s.mu.Unlock()
}

// Yield is an explicit scheduling point for harness tasks.
func Yield(site string) { Sync(site) }

// Block runs f (an operation that may block) between two scheduling points.
func Block(site string, f func()) {
	Sync(site)
	f()
	Sync(site + "'")
}

// Steps returns the number of Step calls so far in the current simulation.
func Steps() int64 {
	if s := cur.Load(); s != nil {
		return s.steps.Load()
	}
	return 0
}

// TaskID returns the scheduler id of the calling goroutine ("" when it is not a
// task of the current simulation, or there is none).
func TaskID() string {
	s := cur.Load()
	if s == nil {
		return ""
	}
	g := goid()
	s.mu.Lock()
	defer s.mu.Unlock()
	if t := s.tasks[g]; t != nil {
		return t.id
	}
	return ""
}

// GoID returns the runtime id of the calling goroutine.
func GoID() uint64 { return goid() }

// ---- step budget for plain (unscheduled, bubble-free) runs --------------------

var (
	budgetOn  atomic.Bool
	budgetRem atomic.Int64
	budgetMu  sync.Mutex
	budgetCh  chan struct{}
)

// SetStepBudget arms a budget of n Step calls for code running without a
// scheduler (ModeOff). When it is exhausted the returned channel is closed and
// every goroutine that calls Step afterwards blocks forever: a loop that never
// terminates is turned into a parked goroutine instead of a spinning one.
func SetStepBudget(n int64) <-chan struct{} {
	budgetMu.Lock()
	defer budgetMu.Unlock()
	budgetCh = make(chan struct{})
	budgetRem.Store(n)
	budgetOn.Store(true)
	return budgetCh
}

// ClearStepBudget disarms the budget.
func ClearStepBudget() { budgetOn.Store(false) }

// StepsLeft returns the remaining budget.
func StepsLeft() int64 { return budgetRem.Load() }

func budgetStep() {
	r := budgetRem.Add(-1)
	if r > 0 {
		return
	}
	if r == 0 {
		budgetMu.Lock()
		close(budgetCh)
		budgetMu.Unlock()
	}
	select {}
}
