package simrt

import (
	"sync/atomic"
	"testing/synctest"
	"unsafe"
)

// Deterministic select.
//
// The runtime picks uniformly at random among the ready cases of a select; that
// choice cannot be seeded. The instrumenter therefore hands every channel of a
// select to Sel before the statement runs. While the calling task holds the
// baton every other goroutine of the bubble is parked or durably blocked, so the
// readiness of a channel operation can be read off the channel itself: closed,
// buffered elements (or free slots), or a goroutine waiting on the other side.
// When two or more cases are certainly ready Sel lets the seeded schedule choose
// one and the others are masked with nil channels (a nil channel never fires), so
// the statement takes exactly the chosen case. Picking any ready case is a legal
// behaviour of the original statement. Timer channels are never inspected: when
// another case is certainly ready that case is taken, otherwise nothing is masked.
//
// The inspection reads runtime.hchan through unsafe; the layout is that of the
// pinned toolchain (go1.26.8) and is validated by a self-check the first time a
// simulation starts. If the self-check fails select control is switched off.

type hchanHdr struct {
	qcount     uint
	dataqsiz   uint
	buf        unsafe.Pointer
	elemsize   uint16
	closed     uint32
	timer      unsafe.Pointer
	elemtype   unsafe.Pointer
	sendx      uint
	recvx      uint
	recvqFirst unsafe.Pointer
	recvqLast  unsafe.Pointer
	sendqFirst unsafe.Pointer
	sendqLast  unsafe.Pointer
}

func chanHdr(v any) *hchanHdr {
	return (*hchanHdr)((*[2]unsafe.Pointer)(unsafe.Pointer(&v))[1])
}

// SelState is the decision for one execution of a select statement.
type SelState struct{ allow int }

var (
	selChecked atomic.Int32 // 0 unknown, 1 ok, 2 failed
	// SelectControl reports whether deterministic select is active.
	SelectControl = func() bool { return selChecked.Load() == 1 }
)

// selfCheckSelect validates the channel inspection. Must run on the root goroutine of a bubble.
func selfCheckSelect() {
	if selChecked.Load() != 0 {
		return
	}
	ok := true
	func() {
		defer func() {
			if recover() != nil {
				ok = false
			}
		}()
		// closed
		c1 := make(chan struct{})
		if chanHdr(c1).closed != 0 {
			ok = false
		}
		close(c1)
		if chanHdr(c1).closed == 0 {
			ok = false
		}
		// buffered
		c2 := make(chan int, 3)
		c2 <- 1
		c2 <- 2
		if h := chanHdr(c2); h.qcount != 2 || h.dataqsiz != 3 {
			ok = false
		}
		// blocked sender / receiver on an unbuffered channel
		c3 := make(chan int)
		go func() { c3 <- 7 }()
		synctest.Wait()
		if h := chanHdr(c3); h.sendqFirst == nil || h.recvqFirst != nil || h.qcount != 0 {
			ok = false
		}
		if v := <-c3; v != 7 {
			ok = false
		}
		c4 := make(chan int)
		done := make(chan struct{})
		go func() { <-c4; close(done) }()
		synctest.Wait()
		if h := chanHdr(c4); h.recvqFirst == nil || h.sendqFirst != nil {
			ok = false
		}
		c4 <- 1
		<-done
		synctest.Wait()
		if h := chanHdr(c4); h.recvqFirst != nil || h.sendqFirst != nil {
			ok = false
		}
	}()
	if ok {
		selChecked.Store(1)
	} else {
		selChecked.Store(2)
	}
}

// Sel is spliced in front of every select statement: it is the scheduling point
// before the statement and decides which case may fire. sendMask has bit i set
// when case i is a send.
func Sel(site string, sendMask uint64, chans ...any) *SelState {
	s := cur.Load()
	if s == nil {
		if mode.Load() == ModeRace {
			perturb()
		}
		return nil
	}
	t := s.me(site)
	if t == nil {
		return nil
	}
	s.park(t, site)
	if selChecked.Load() != 1 || len(chans) < 2 {
		return nil
	}
	var ready []int
	for i, c := range chans {
		if c == nil {
			continue
		}
		h := chanHdr(c)
		if h == nil || h.timer != nil {
			continue // nil channel, or a timer channel (never inspected)
		}
		send := sendMask&(1<<uint(i)) != 0
		switch {
		case h.closed != 0:
			ready = append(ready, i)
		case !send && (h.qcount > 0 || h.sendqFirst != nil):
			ready = append(ready, i)
		case send && (h.qcount < h.dataqsiz || h.recvqFirst != nil):
			ready = append(ready, i)
		}
	}
	if len(ready) == 0 {
		return nil
	}
	pick := 0
	if len(ready) > 1 {
		pick = s.chooseSelect(len(ready))
	}
	return &SelState{allow: ready[pick]}
}

// chooseSelect draws a select choice: pinned by the plan, else from the run's seed.
func (s *Sim) chooseSelect(n int) int {
	s.mu.Lock()
	defer s.mu.Unlock()
	k := len(s.SelectLog)
	var pick int
	if k < len(s.cfg.Selects) {
		pick = s.cfg.Selects[k] % n
		if pick < 0 {
			pick = 0
		}
	} else {
		x := (s.cfg.Seed ^ 0x5e1ec7) + uint64(k)*0x9E3779B97F4A7C15
		x ^= x >> 31
		x *= 0xBF58476D1CE4E5B9
		x ^= x >> 29
		pick = int(x % uint64(n))
	}
	s.SelectLog = append(s.SelectLog, pick)
	s.Stats.SelectChoices++
	return pick
}

// MR masks receive case i: the channel itself when the case may fire, nil otherwise.
func MR[T any](st *SelState, i int, ch <-chan T) <-chan T {
	if st == nil || st.allow == i {
		return ch
	}
	return nil
}

// MS masks send case i.
func MS[T any](st *SelState, i int, ch chan<- T) chan<- T {
	if st == nil || st.allow == i {
		return ch
	}
	return nil
}
