// Package simnet is the in-process network of the simulator. Instrumented
// go-ipfix code reaches it through the redirected call sites net.Dial ->
// simnet.NetDial etc.; harness code uses it directly for raw clients, taps and
// fault hooks. Everything blocks on channels created inside the synctest bubble
// (durably blocking) and every deadline / delay uses the bubble's fake clock.
//
// A stream is a reliable ordered byte pipe with arbitrary chunking, delay,
// stalls, write errors, short writes, orderly close, abort and half-close.
// A datagram socket delivers whole datagrams subject to loss, duplication,
// delay (hence reordering) and corruption. No kernel buffering, retransmission
// or congestion is modelled.
//
// It lives in /verif/verifsim/simnet and is compiled through go's -overlay as
// github.com/vmware/go-ipfix/pkg/verifsim/simnet.
package simnet

import (
	"errors"
	"fmt"
	"io"
	"net"
	"os"
	"sync"
	"sync/atomic"
	"time"
)

// Net is one simulated network (one per run).
type Net struct {
	mu        sync.Mutex
	listeners map[string]*Listener
	udp       map[string]*UDPConn
	nextPort  int
	nextHost  int
	nextConn  int

	// OnConnect is called (by the dialing goroutine, before Dial returns) with the
	// client and server ends of every new stream connection, so that the harness
	// can install hooks and taps.
	OnConnect func(client, server *Conn)
	// OnUDPBind is called for every datagram socket created.
	OnUDPBind func(c *UDPConn)

	Stats Stats
}

// Stats counts what the network actually did (fired, not merely configured).
type Stats struct {
	mu sync.Mutex
	m  map[string]int64
}

func (s *Stats) Add(kind string, n int64) {
	s.mu.Lock()
	if s.m == nil {
		s.m = map[string]int64{}
	}
	s.m[kind] += n
	s.mu.Unlock()
}

func (s *Stats) Snapshot() map[string]int64 {
	s.mu.Lock()
	defer s.mu.Unlock()
	out := map[string]int64{}
	for k, v := range s.m {
		out[k] = v
	}
	return out
}

var cur atomic.Pointer[Net]

// New creates a network and installs it as the process-wide current one.
func New() *Net {
	n := &Net{listeners: map[string]*Listener{}, udp: map[string]*UDPConn{}, nextPort: 40000, nextHost: 100}
	cur.Store(n)
	return n
}

// Current returns the installed network.
func Current() *Net {
	n := cur.Load()
	if n == nil {
		panic("simnet: no network installed (simnet.New not called)")
	}
	return n
}

var (
	ErrRefused   = &net.OpError{Op: "dial", Net: "tcp", Err: errors.New("connection refused")}
	ErrReset     = errors.New("connection reset by peer")
	ErrAddrInUse = errors.New("bind: address already in use")
)

type timeoutError struct{}

func (timeoutError) Error() string   { return "i/o timeout" }
func (timeoutError) Timeout() bool   { return true }
func (timeoutError) Temporary() bool { return true }
func (timeoutError) Is(err error) bool {
	return err == os.ErrDeadlineExceeded
}

// ErrTimeout is returned when a deadline passes.
var ErrTimeout error = timeoutError{}

func isV6(host string) bool {
	ip := net.ParseIP(host)
	return ip != nil && ip.To4() == nil
}

func splitAddr(address string) (net.IP, int, error) {
	host, portS, err := net.SplitHostPort(address)
	if err != nil {
		return nil, 0, err
	}
	ip := net.ParseIP(host)
	if ip == nil {
		if host == "" || host == "localhost" {
			ip = net.IPv4(127, 0, 0, 1)
		} else {
			return nil, 0, fmt.Errorf("simnet: cannot resolve host %q (only literal IPs)", host)
		}
	}
	var port int
	if _, err := fmt.Sscanf(portS, "%d", &port); err != nil {
		return nil, 0, fmt.Errorf("simnet: bad port %q", portS)
	}
	return ip, port, nil
}

// NetResolveTCPAddr / NetResolveUDPAddr replace net.ResolveTCPAddr / net.ResolveUDPAddr in
// instrumented code: the system resolver is a real, shared, uncontrolled component (and cannot be
// used from inside a bubble); names are resolved by the simulated network's own table
// (literal addresses, "localhost").
func NetResolveTCPAddr(network, address string) (*net.TCPAddr, error) {
	ip, port, err := splitAddr(address)
	if err != nil {
		return nil, &net.OpError{Op: "resolve", Net: network, Err: err}
	}
	if v4 := ip.To4(); v4 != nil {
		ip = v4
	}
	return &net.TCPAddr{IP: ip, Port: port}, nil
}

func NetResolveUDPAddr(network, address string) (*net.UDPAddr, error) {
	a, err := NetResolveTCPAddr(network, address)
	if err != nil {
		return nil, err
	}
	return &net.UDPAddr{IP: a.IP, Port: a.Port}, nil
}

func (n *Net) allocPortLocked() int {
	n.nextPort++
	return n.nextPort
}

func (n *Net) ephemeralLocked(remote net.IP) (net.IP, int) {
	n.nextHost++
	h := n.nextHost
	var ip net.IP
	if remote.To4() != nil {
		ip = net.IPv4(10, 0, byte(h>>8), byte(h))
	} else {
		ip = net.ParseIP(fmt.Sprintf("fd00::%x", h))
	}
	return ip, n.allocPortLocked()
}

// ---------------------------------------------------------------------------
// streams

// Piece is one delivery unit of a write.
type Piece struct {
	Len   int           // bytes (the last piece takes the rest regardless)
	Delay time.Duration // added to the availability time of the previous piece
}

// WritePlan is what a write hook decides for one Write call.
type WritePlan struct {
	Err    error   // if non-nil the write fails; Accept bytes are still delivered
	Accept int     // number of bytes accepted (<0: all). With Err==nil and Accept<len this is a short write.
	Pieces []Piece // how the accepted bytes are cut and delayed (nil: one piece, no delay)
	Mutate func(b []byte) []byte
}

type chunk struct {
	data []byte
	at   time.Time
}

type pipe struct {
	mu      sync.Mutex
	cap     int // receive window in bytes (0 = unlimited): a writer blocks while it is full
	held    int // bytes written and not yet read
	chunks  []chunk
	lastAt  time.Time
	wake    chan struct{}
	closed  bool  // writer closed (FIN): reader drains then EOF
	reset   error // abort: reader fails at once
	rclosed bool  // reader side closed: writes fail
	maxRead []int // plan-chosen read sizes (consumed one per Read; empty = unlimited)
}

func newPipe() *pipe { return &pipe{wake: make(chan struct{})} }

func (p *pipe) signalLocked() {
	close(p.wake)
	p.wake = make(chan struct{})
}

// Conn is one end of a simulated stream connection.
type Conn struct {
	ID     int
	net    *Net
	local  net.Addr
	remote net.Addr
	rd     *pipe // we read from
	wr     *pipe // we write to
	peer   *Conn

	mu        sync.Mutex
	rdeadline time.Time
	wdeadline time.Time
	closed    bool
	dlWake    chan struct{}

	// Hook decides the fate of each Write on this end (nil: deliver whole, at once).
	Hook func(c *Conn, p []byte) WritePlan
	// Tap observes the bytes accepted by each Write on this end, in order.
	Tap func(p []byte)
	// OnWrite observes each Write call on this end when it is invoked (before flow control can block it).
	OnWrite func(p []byte)
	// Server is true for the accepting end.
	Server bool
}

func (c *Conn) LocalAddr() net.Addr  { return c.local }
func (c *Conn) RemoteAddr() net.Addr { return c.remote }
func (c *Conn) Peer() *Conn          { return c.peer }

// SetWindow bounds the bytes that may be in flight towards this end (receive window): once that
// many bytes are written and unread, the peer's Write blocks until this end reads, the writer's
// deadline passes, or the connection is closed.
func (c *Conn) SetWindow(n int) {
	c.rd.mu.Lock()
	c.rd.cap = n
	c.rd.mu.Unlock()
}

// SetReadSizes makes successive Reads on this end return at most the given
// numbers of bytes (short reads), then unlimited.
func (c *Conn) SetReadSizes(sizes []int) {
	c.rd.mu.Lock()
	c.rd.maxRead = append([]int(nil), sizes...)
	c.rd.mu.Unlock()
}

func (c *Conn) Read(b []byte) (int, error) {
	for {
		c.mu.Lock()
		if c.closed {
			c.mu.Unlock()
			return 0, net.ErrClosed
		}
		dl := c.rdeadline
		dlw := c.dlWake
		c.mu.Unlock()

		p := c.rd
		p.mu.Lock()
		if p.reset != nil {
			err := p.reset
			p.mu.Unlock()
			return 0, &net.OpError{Op: "read", Net: "tcp", Err: err}
		}
		now := time.Now()
		if len(p.chunks) > 0 && !p.chunks[0].at.After(now) {
			if len(b) == 0 {
				p.mu.Unlock()
				return 0, nil
			}
			limit := len(b)
			if len(p.maxRead) > 0 {
				if p.maxRead[0] > 0 && p.maxRead[0] < limit {
					limit = p.maxRead[0]
				}
				p.maxRead = p.maxRead[1:]
			}
			n := 0
			for n < limit && len(p.chunks) > 0 && !p.chunks[0].at.After(now) {
				k := copy(b[n:limit], p.chunks[0].data)
				n += k
				p.held -= k
				if k == len(p.chunks[0].data) {
					p.chunks = p.chunks[1:]
				} else {
					p.chunks[0].data = p.chunks[0].data[k:]
				}
			}
			p.signalLocked() // a blocked writer may continue
			p.mu.Unlock()
			return n, nil
		}
		if len(p.chunks) == 0 && p.closed {
			p.mu.Unlock()
			return 0, io.EOF
		}
		wake := p.wake
		var next time.Time
		if len(p.chunks) > 0 {
			next = p.chunks[0].at
		}
		p.mu.Unlock()

		if !dl.IsZero() && !dl.After(now) {
			return 0, &net.OpError{Op: "read", Net: "tcp", Err: ErrTimeout}
		}
		// wait for: new data / close, availability time of the first chunk, deadline, deadline change
		var tC <-chan time.Time
		var timer *time.Timer
		until := next
		if !dl.IsZero() && (until.IsZero() || dl.Before(until)) {
			until = dl
		}
		if !until.IsZero() {
			timer = time.NewTimer(until.Sub(now))
			tC = timer.C
		}
		select {
		case <-wake:
		case <-tC:
		case <-dlw:
		}
		if timer != nil {
			timer.Stop()
		}
	}
}

func (c *Conn) Write(b []byte) (int, error) {
	if c.OnWrite != nil {
		c.OnWrite(b)
	}
	c.wr.mu.Lock()
	window := c.wr.cap
	c.wr.mu.Unlock()
	if window <= 0 {
		return c.writeOnce(b)
	}
	// flow control: at most `window` unread bytes may be in flight
	total := 0
	blocked := false
	for len(b) > 0 {
		c.mu.Lock()
		closed, dl, dlw := c.closed, c.wdeadline, c.dlWake
		c.mu.Unlock()
		if closed {
			return total, net.ErrClosed
		}
		p := c.wr
		p.mu.Lock()
		room := p.cap - p.held
		gone := p.rclosed || p.reset != nil || p.closed
		wake := p.wake
		p.mu.Unlock()
		if room > 0 || gone {
			k := len(b)
			if !gone && k > room {
				k = room
			}
			n, err := c.writeOnce(b[:k])
			total += n
			if err != nil {
				return total, err
			}
			b = b[k:]
			continue
		}
		now := time.Now()
		if !dl.IsZero() && !dl.After(now) {
			c.net.Stats.Add("stream.write_deadline_while_blocked", 1)
			return total, &net.OpError{Op: "write", Net: "tcp", Err: ErrTimeout}
		}
		if !blocked {
			blocked = true
			c.net.Stats.Add("stream.writes_blocked_by_window", 1)
		}
		var tC <-chan time.Time
		var timer *time.Timer
		if !dl.IsZero() {
			timer = time.NewTimer(dl.Sub(now))
			tC = timer.C
		}
		select {
		case <-wake:
		case <-tC:
		case <-dlw:
		}
		if timer != nil {
			timer.Stop()
		}
	}
	return total, nil
}

// writeOnce hands b to the peer's receive queue without flow control.
func (c *Conn) writeOnce(b []byte) (int, error) {
	c.mu.Lock()
	if c.closed {
		c.mu.Unlock()
		return 0, net.ErrClosed
	}
	dl := c.wdeadline
	c.mu.Unlock()
	if !dl.IsZero() && !dl.After(time.Now()) {
		return 0, &net.OpError{Op: "write", Net: "tcp", Err: ErrTimeout}
	}
	plan := WritePlan{Accept: -1}
	if c.Hook != nil {
		plan = c.Hook(c, b)
	}
	accept := plan.Accept
	if accept < 0 || accept > len(b) {
		accept = len(b)
	}
	p := c.wr
	p.mu.Lock()
	if p.reset != nil {
		p.mu.Unlock()
		c.net.Stats.Add("stream.write_to_reset_peer", 1)
		return 0, &net.OpError{Op: "write", Net: "tcp", Err: errors.New("broken pipe")}
	}
	if p.rclosed {
		// The peer closed its end (FIN). A real kernel accepts the write and the data
		// vanishes (the reset comes back later); only a read sees the EOF.
		p.mu.Unlock()
		if c.Tap != nil && len(b) > 0 {
			c.Tap(append([]byte(nil), b...))
		}
		c.net.Stats.Add("stream.write_discarded_peer_closed", 1)
		return len(b), nil
	}
	if p.closed {
		p.mu.Unlock()
		return 0, &net.OpError{Op: "write", Net: "tcp", Err: errors.New("write after close")}
	}
	data := append([]byte(nil), b[:accept]...)
	if c.Tap != nil && accept > 0 {
		c.Tap(data)
	}
	if plan.Mutate != nil {
		data = plan.Mutate(append([]byte(nil), data...))
		c.net.Stats.Add("stream.mutated_writes", 1)
	}
	now := time.Now()
	at := p.lastAt
	if at.Before(now) {
		at = now
	}
	pieces := plan.Pieces
	if len(pieces) == 0 {
		pieces = []Piece{{Len: len(data)}}
	}
	rest := data
	for i, pc := range pieces {
		if len(rest) == 0 {
			break
		}
		k := pc.Len
		if k <= 0 || k > len(rest) || i == len(pieces)-1 {
			k = len(rest)
		}
		if pc.Delay > 0 {
			at = at.Add(pc.Delay)
			c.net.Stats.Add("stream.delayed_pieces", 1)
		}
		p.chunks = append(p.chunks, chunk{data: rest[:k], at: at})
		p.held += k
		rest = rest[k:]
		if i > 0 {
			c.net.Stats.Add("stream.cuts", 1)
		}
	}
	p.lastAt = at
	p.signalLocked()
	p.mu.Unlock()
	if plan.Err != nil {
		c.net.Stats.Add("stream.write_errors", 1)
		return accept, &net.OpError{Op: "write", Net: "tcp", Err: plan.Err}
	}
	if accept < len(b) {
		c.net.Stats.Add("stream.short_writes", 1)
	}
	return accept, nil
}

// Close is an orderly close: the peer drains what was written, then reads EOF.
func (c *Conn) Close() error {
	c.mu.Lock()
	if c.closed {
		c.mu.Unlock()
		return net.ErrClosed
	}
	c.closed = true
	close(c.dlWake)
	c.dlWake = make(chan struct{})
	c.mu.Unlock()
	c.wr.mu.Lock()
	c.wr.closed = true
	c.wr.signalLocked()
	c.wr.mu.Unlock()
	c.rd.mu.Lock()
	c.rd.rclosed = true
	c.rd.signalLocked()
	c.rd.mu.Unlock()
	return nil
}

// CloseWrite half-closes: the peer reads EOF after draining, we can still read.
func (c *Conn) CloseWrite() error {
	c.wr.mu.Lock()
	c.wr.closed = true
	c.wr.signalLocked()
	c.wr.mu.Unlock()
	c.net.Stats.Add("stream.half_close", 1)
	return nil
}

// Abort resets the connection: undelivered data is discarded, the peer's reads
// and writes fail at once.
func (c *Conn) Abort() {
	c.mu.Lock()
	c.closed = true
	close(c.dlWake)
	c.dlWake = make(chan struct{})
	c.mu.Unlock()
	for _, p := range []*pipe{c.wr, c.rd} {
		p.mu.Lock()
		p.reset = ErrReset
		p.chunks = nil
		p.held = 0
		p.signalLocked()
		p.mu.Unlock()
	}
	c.net.Stats.Add("stream.abort", 1)
}

func (c *Conn) setDeadline(r, w bool, t time.Time) error {
	c.mu.Lock()
	defer c.mu.Unlock()
	if c.closed {
		return net.ErrClosed
	}
	if r {
		c.rdeadline = t
	}
	if w {
		c.wdeadline = t
	}
	close(c.dlWake)
	c.dlWake = make(chan struct{})
	return nil
}
func (c *Conn) SetDeadline(t time.Time) error      { return c.setDeadline(true, true, t) }
func (c *Conn) SetReadDeadline(t time.Time) error  { return c.setDeadline(true, false, t) }
func (c *Conn) SetWriteDeadline(t time.Time) error { return c.setDeadline(false, true, t) }

// Listener is a simulated stream listener.
type Listener struct {
	net    *Net
	addr   *net.TCPAddr
	key    string
	mu     sync.Mutex
	queue  []*Conn
	wake   chan struct{}
	closed bool
}

func (l *Listener) Addr() net.Addr { return l.addr }

func (l *Listener) Accept() (net.Conn, error) {
	for {
		l.mu.Lock()
		if l.closed {
			l.mu.Unlock()
			return nil, &net.OpError{Op: "accept", Net: "tcp", Addr: l.addr, Err: net.ErrClosed}
		}
		if len(l.queue) > 0 {
			c := l.queue[0]
			l.queue = l.queue[1:]
			l.mu.Unlock()
			return c, nil
		}
		w := l.wake
		l.mu.Unlock()
		<-w
	}
}

func (l *Listener) Close() error {
	l.mu.Lock()
	if l.closed {
		l.mu.Unlock()
		return net.ErrClosed
	}
	l.closed = true
	close(l.wake)
	l.wake = make(chan struct{})
	q := l.queue
	l.queue = nil
	l.mu.Unlock()
	for _, c := range q {
		c.Abort()
	}
	l.net.mu.Lock()
	delete(l.net.listeners, l.key)
	l.net.mu.Unlock()
	return nil
}

// Listen creates a stream listener on the network.
func (n *Net) Listen(network, address string) (*Listener, error) {
	ip, port, err := splitAddr(address)
	if err != nil {
		return nil, &net.OpError{Op: "listen", Net: network, Err: err}
	}
	n.mu.Lock()
	defer n.mu.Unlock()
	if port == 0 {
		port = n.allocPortLocked()
	}
	addr := &net.TCPAddr{IP: ip, Port: port}
	key := addr.String()
	if _, ok := n.listeners[key]; ok {
		return nil, &net.OpError{Op: "listen", Net: network, Addr: addr, Err: ErrAddrInUse}
	}
	l := &Listener{net: n, addr: addr, key: key, wake: make(chan struct{})}
	n.listeners[key] = l
	return l, nil
}

// Listening reports whether a stream listener or datagram socket is bound at address.
func (n *Net) Listening(address string) bool {
	ip, port, err := splitAddr(address)
	if err != nil {
		return false
	}
	n.mu.Lock()
	defer n.mu.Unlock()
	_, a := n.listeners[(&net.TCPAddr{IP: ip, Port: port}).String()]
	_, b := n.udp[(&net.UDPAddr{IP: ip, Port: port}).String()]
	return a || b
}

// Dial opens a stream connection to a listener.
func (n *Net) Dial(network, address string) (*Conn, error) {
	return n.DialFrom(network, address, nil)
}

// DialFrom is Dial with a local address chosen by the caller (a peer that binds a fixed source
// port, or gets the same one again after its previous connection was reset). A nil local address
// means an ephemeral one.
func (n *Net) DialFrom(network, address string, local *net.TCPAddr) (*Conn, error) {
	ip, port, err := splitAddr(address)
	if err != nil {
		return nil, &net.OpError{Op: "dial", Net: network, Err: err}
	}
	raddr := &net.TCPAddr{IP: ip, Port: port}
	n.mu.Lock()
	l := n.listeners[raddr.String()]
	if l == nil {
		n.mu.Unlock()
		n.Stats.Add("stream.refused", 1)
		return nil, &net.OpError{Op: "dial", Net: network, Addr: raddr, Err: errors.New("connection refused")}
	}
	var laddr *net.TCPAddr
	if local != nil {
		laddr = &net.TCPAddr{IP: local.IP, Port: local.Port}
		n.Stats.Add("stream.local_address_reused", 1)
	} else {
		lip, lport := n.ephemeralLocked(ip)
		laddr = &net.TCPAddr{IP: lip, Port: lport}
	}
	n.nextConn++
	id := n.nextConn
	hook := n.OnConnect
	n.mu.Unlock()
	a, b := newPipe(), newPipe()
	cl := &Conn{ID: id, net: n, local: laddr, remote: raddr, rd: a, wr: b, dlWake: make(chan struct{})}
	sv := &Conn{ID: id, net: n, local: raddr, remote: laddr, rd: b, wr: a, dlWake: make(chan struct{}), Server: true}
	cl.peer, sv.peer = sv, cl
	if hook != nil {
		hook(cl, sv)
	}
	l.mu.Lock()
	if l.closed {
		l.mu.Unlock()
		return nil, &net.OpError{Op: "dial", Net: network, Addr: raddr, Err: errors.New("connection refused")}
	}
	l.queue = append(l.queue, sv)
	close(l.wake)
	l.wake = make(chan struct{})
	l.mu.Unlock()
	n.Stats.Add("stream.connections", 1)
	return cl, nil
}

// ---------------------------------------------------------------------------
// datagrams

// Fate is what a datagram hook decides for one datagram.
type Fate struct {
	Drop   bool
	Copies []time.Duration // delivery delays, one per copy (nil: one copy, no delay)
	Mutate func(b []byte) []byte
	Err    error // the sender's Write fails (nothing is sent)
}

type dgram struct {
	data []byte
	from *net.UDPAddr
}

// UDPConn is a simulated datagram socket (bound, optionally connected).
type UDPConn struct {
	net    *Net
	local  *net.UDPAddr
	remote *net.UDPAddr // non-nil: connected socket
	key    string

	mu        sync.Mutex
	queue     []dgram
	wake      chan struct{}
	closed    bool
	rdeadline time.Time

	// Hook decides the fate of each datagram sent from this socket.
	Hook func(c *UDPConn, to *net.UDPAddr, p []byte) Fate
	// Tap observes each datagram handed to this socket for sending.
	Tap func(to *net.UDPAddr, p []byte)
	// demux, when set, receives incoming datagrams instead of the queue (listener mode)
	demux func(d dgram)
}

func (c *UDPConn) LocalAddr() net.Addr { return c.local }
func (c *UDPConn) RemoteAddr() net.Addr {
	if c.remote == nil {
		return nil
	}
	return c.remote
}

func (n *Net) bindUDP(laddr *net.UDPAddr, remote *net.UDPAddr) (*UDPConn, error) {
	n.mu.Lock()
	ip := laddr.IP
	port := laddr.Port
	if ip == nil && remote != nil {
		ip, port = n.ephemeralLocked(remote.IP)
	}
	if ip == nil {
		ip = net.IPv4(127, 0, 0, 1)
	}
	if port == 0 {
		port = n.allocPortLocked()
	}
	addr := &net.UDPAddr{IP: ip, Port: port}
	key := addr.String()
	if _, ok := n.udp[key]; ok {
		n.mu.Unlock()
		return nil, &net.OpError{Op: "listen", Net: "udp", Addr: addr, Err: ErrAddrInUse}
	}
	c := &UDPConn{net: n, local: addr, remote: remote, key: key, wake: make(chan struct{})}
	n.udp[key] = c
	hook := n.OnUDPBind
	n.mu.Unlock()
	if hook != nil {
		hook(c)
	}
	return c, nil
}

// ListenUDP binds a datagram socket.
func (n *Net) ListenUDP(laddr *net.UDPAddr) (*UDPConn, error) {
	return n.bindUDP(laddr, nil)
}

// DialUDP creates a connected datagram socket with an ephemeral local address.
func (n *Net) DialUDP(raddr *net.UDPAddr) (*UDPConn, error) {
	return n.bindUDP(&net.UDPAddr{}, raddr)
}

func (c *UDPConn) deliver(d dgram) {
	c.mu.Lock()
	if c.closed {
		c.mu.Unlock()
		c.net.Stats.Add("dgram.to_closed_socket", 1)
		return
	}
	if c.remote != nil && (!c.remote.IP.Equal(d.from.IP) || c.remote.Port != d.from.Port) {
		c.mu.Unlock()
		return // connected sockets only receive from their peer
	}
	if c.demux != nil {
		f := c.demux
		c.mu.Unlock()
		f(d)
		return
	}
	c.queue = append(c.queue, d)
	close(c.wake)
	c.wake = make(chan struct{})
	c.mu.Unlock()
}

func (c *UDPConn) sendTo(to *net.UDPAddr, b []byte) (int, error) {
	c.mu.Lock()
	if c.closed {
		c.mu.Unlock()
		return 0, net.ErrClosed
	}
	c.mu.Unlock()
	fate := Fate{}
	if c.Hook != nil {
		fate = c.Hook(c, to, b)
	}
	if fate.Err != nil {
		c.net.Stats.Add("dgram.write_errors", 1)
		return 0, &net.OpError{Op: "write", Net: "udp", Err: fate.Err}
	}
	data := append([]byte(nil), b...)
	if c.Tap != nil {
		c.Tap(to, data)
	}
	c.net.Stats.Add("dgram.sent", 1)
	if fate.Drop {
		c.net.Stats.Add("dgram.dropped", 1)
		return len(b), nil
	}
	if fate.Mutate != nil {
		data = fate.Mutate(append([]byte(nil), data...))
		c.net.Stats.Add("dgram.mutated", 1)
	}
	copies := fate.Copies
	if len(copies) == 0 {
		copies = []time.Duration{0}
	}
	if len(copies) > 1 {
		c.net.Stats.Add("dgram.duplicated", int64(len(copies)-1))
	}
	for _, d := range copies {
		d := d
		pkt := dgram{data: append([]byte(nil), data...), from: c.local}
		send := func() {
			c.net.mu.Lock()
			dst := c.net.udp[to.String()]
			c.net.mu.Unlock()
			if dst == nil {
				c.net.Stats.Add("dgram.no_socket", 1)
				return
			}
			dst.deliver(pkt)
		}
		if d > 0 {
			c.net.Stats.Add("dgram.delayed", 1)
			time.AfterFunc(d, send)
		} else {
			send()
		}
	}
	return len(b), nil
}

func (c *UDPConn) recv(b []byte) (int, *net.UDPAddr, error) {
	for {
		c.mu.Lock()
		if c.closed {
			c.mu.Unlock()
			return 0, nil, &net.OpError{Op: "read", Net: "udp", Addr: c.local, Err: net.ErrClosed}
		}
		if len(c.queue) > 0 {
			d := c.queue[0]
			c.queue = c.queue[1:]
			c.mu.Unlock()
			n := copy(b, d.data)
			if n < len(d.data) {
				c.net.Stats.Add("dgram.truncated_by_small_buffer", 1)
			}
			return n, d.from, nil
		}
		dl := c.rdeadline
		w := c.wake
		c.mu.Unlock()
		now := time.Now()
		if !dl.IsZero() && !dl.After(now) {
			return 0, nil, &net.OpError{Op: "read", Net: "udp", Err: ErrTimeout}
		}
		if dl.IsZero() {
			<-w
		} else {
			t := time.NewTimer(dl.Sub(now))
			select {
			case <-w:
			case <-t.C:
			}
			t.Stop()
		}
	}
}

func (c *UDPConn) ReadFromUDP(b []byte) (int, *net.UDPAddr, error) { return c.recv(b) }
func (c *UDPConn) ReadFrom(b []byte) (int, net.Addr, error) {
	n, a, err := c.recv(b)
	if a == nil {
		return n, nil, err
	}
	return n, a, err
}
func (c *UDPConn) Read(b []byte) (int, error) {
	n, _, err := c.recv(b)
	return n, err
}
func (c *UDPConn) Write(b []byte) (int, error) {
	if c.remote == nil {
		return 0, &net.OpError{Op: "write", Net: "udp", Err: errors.New("destination address required")}
	}
	return c.sendTo(c.remote, b)
}
func (c *UDPConn) WriteTo(b []byte, addr net.Addr) (int, error) {
	ua, ok := addr.(*net.UDPAddr)
	if !ok {
		return 0, errors.New("simnet: WriteTo needs *net.UDPAddr")
	}
	return c.sendTo(ua, b)
}
func (c *UDPConn) WriteToUDP(b []byte, addr *net.UDPAddr) (int, error) { return c.sendTo(addr, b) }

func (c *UDPConn) Close() error {
	c.mu.Lock()
	if c.closed {
		c.mu.Unlock()
		return net.ErrClosed
	}
	c.closed = true
	close(c.wake)
	c.wake = make(chan struct{})
	c.mu.Unlock()
	c.net.mu.Lock()
	if c.net.udp[c.key] == c {
		delete(c.net.udp, c.key)
	}
	c.net.mu.Unlock()
	return nil
}

func (c *UDPConn) SetDeadline(t time.Time) error { return c.SetReadDeadline(t) }
func (c *UDPConn) SetReadDeadline(t time.Time) error {
	c.mu.Lock()
	c.rdeadline = t
	close(c.wake)
	c.wake = make(chan struct{})
	c.mu.Unlock()
	return nil
}
func (c *UDPConn) SetWriteDeadline(t time.Time) error { return nil }

// ---------------------------------------------------------------------------
// redirected call sites (plain)

// NetDial replaces net.Dial in instrumented code.
func NetDial(network, address string) (net.Conn, error) {
	n := Current()
	switch network {
	case "tcp", "tcp4", "tcp6":
		c, err := n.Dial(network, address)
		if err != nil {
			return nil, err
		}
		return c, nil
	case "udp", "udp4", "udp6":
		ip, port, err := splitAddr(address)
		if err != nil {
			return nil, &net.OpError{Op: "dial", Net: network, Err: err}
		}
		c, err := n.DialUDP(&net.UDPAddr{IP: ip, Port: port})
		if err != nil {
			return nil, err
		}
		return c, nil
	}
	return nil, &net.OpError{Op: "dial", Net: network, Err: net.UnknownNetworkError(network)}
}

// NetListen replaces net.Listen in instrumented code.
func NetListen(network, address string) (net.Listener, error) {
	l, err := Current().Listen(network, address)
	if err != nil {
		return nil, err
	}
	return l, nil
}

// NetListenUDP replaces net.ListenUDP in instrumented code.
func NetListenUDP(network string, laddr *net.UDPAddr) (*UDPConn, error) {
	return Current().ListenUDP(laddr)
}
