package simnet

import (
	"crypto/tls"
	"net"
	"sync"
	"time"

	"github.com/pion/dtls/v2"
	"github.com/pion/dtls/v2/pkg/protocol"
	"github.com/pion/dtls/v2/pkg/protocol/recordlayer"
)

// TlsDial replaces tls.Dial in instrumented code. It runs the real crypto/tls
// client state machine over a simulated stream. The only thing reimplemented
// from crypto/tls.Dial is the defaulting of ServerName from the dialled host.
func TlsDial(network, addr string, config *tls.Config) (*tls.Conn, error) {
	raw, err := Current().Dial(network, addr)
	if err != nil {
		return nil, err
	}
	if config == nil {
		config = &tls.Config{}
	}
	if config.ServerName == "" {
		host, _, herr := net.SplitHostPort(addr)
		if herr != nil {
			host = addr
		}
		c := config.Clone()
		c.ServerName = host
		config = c
	}
	conn := tls.Client(raw, config)
	if err := conn.Handshake(); err != nil {
		raw.Close()
		return nil, err
	}
	return conn, nil
}

// TlsListen replaces tls.Listen in instrumented code.
func TlsListen(network, laddr string, config *tls.Config) (net.Listener, error) {
	l, err := Current().Listen(network, laddr)
	if err != nil {
		return nil, err
	}
	return tls.NewListener(l, config), nil
}

// DtlsDial replaces dtls.Dial: the real pion/dtls client over a simulated
// connected datagram socket.
func DtlsDial(network string, raddr *net.UDPAddr, config *dtls.Config) (*dtls.Conn, error) {
	pc, err := Current().DialUDP(raddr)
	if err != nil {
		return nil, err
	}
	c, err := dtls.Client(pc, config)
	if err != nil {
		pc.Close()
		return nil, err
	}
	return c, nil
}

// DtlsListen replaces dtls.Listen: the real pion/dtls listener/accept logic
// (dtls.NewListener -> dtls.Server handshake) over a simulated datagram
// listener that, like pion/transport's, creates one connection per remote
// address and only for datagrams whose first record is a handshake record.
func DtlsListen(network string, laddr *net.UDPAddr, config *dtls.Config) (net.Listener, error) {
	sock, err := Current().ListenUDP(laddr)
	if err != nil {
		return nil, err
	}
	pl := &PacketListener{sock: sock, conns: map[string]*packetConn{}, wake: make(chan struct{})}
	pl.Filter = func(packet []byte) bool {
		pkts, err := recordlayer.UnpackDatagram(packet)
		if err != nil || len(pkts) < 1 {
			return false
		}
		h := &recordlayer.Header{}
		if err := h.Unmarshal(pkts[0]); err != nil {
			return false
		}
		return h.ContentType == protocol.ContentTypeHandshake
	}
	sock.mu.Lock()
	sock.demux = pl.demux
	sock.mu.Unlock()
	return dtls.NewListener(pl, config)
}

// PacketListener turns a datagram socket into a net.Listener with one
// net.Conn per remote address.
type PacketListener struct {
	sock   *UDPConn
	Filter func([]byte) bool

	mu      sync.Mutex
	conns   map[string]*packetConn
	pending []*packetConn
	wake    chan struct{}
	closed  bool
}

func (l *PacketListener) demux(d dgram) {
	key := d.from.String()
	l.mu.Lock()
	if l.closed {
		l.mu.Unlock()
		return
	}
	c := l.conns[key]
	if c == nil {
		if l.Filter != nil && !l.Filter(d.data) {
			l.mu.Unlock()
			l.sock.net.Stats.Add("dgram.listener_filtered", 1)
			return
		}
		c = &packetConn{l: l, remote: d.from, wake: make(chan struct{})}
		l.conns[key] = c
		l.pending = append(l.pending, c)
		close(l.wake)
		l.wake = make(chan struct{})
	}
	l.mu.Unlock()
	c.mu.Lock()
	if !c.closed {
		c.queue = append(c.queue, d.data)
		close(c.wake)
		c.wake = make(chan struct{})
	}
	c.mu.Unlock()
}

func (l *PacketListener) Accept() (net.Conn, error) {
	for {
		l.mu.Lock()
		if l.closed {
			l.mu.Unlock()
			return nil, &net.OpError{Op: "accept", Net: "udp", Addr: l.sock.local, Err: net.ErrClosed}
		}
		if len(l.pending) > 0 {
			c := l.pending[0]
			l.pending = l.pending[1:]
			l.mu.Unlock()
			return c, nil
		}
		w := l.wake
		l.mu.Unlock()
		<-w
	}
}

func (l *PacketListener) Close() error {
	l.mu.Lock()
	if l.closed {
		l.mu.Unlock()
		return net.ErrClosed
	}
	l.closed = true
	close(l.wake)
	l.wake = make(chan struct{})
	l.mu.Unlock()
	return l.sock.Close()
}

func (l *PacketListener) Addr() net.Addr { return l.sock.local }

type packetConn struct {
	l         *PacketListener
	remote    *net.UDPAddr
	mu        sync.Mutex
	queue     [][]byte
	wake      chan struct{}
	closed    bool
	rdeadline time.Time
}

func (c *packetConn) Read(b []byte) (int, error) {
	for {
		c.mu.Lock()
		if c.closed {
			c.mu.Unlock()
			return 0, net.ErrClosed
		}
		if len(c.queue) > 0 {
			d := c.queue[0]
			c.queue = c.queue[1:]
			c.mu.Unlock()
			return copy(b, d), nil
		}
		dl := c.rdeadline
		w := c.wake
		c.mu.Unlock()
		now := time.Now()
		if !dl.IsZero() && !dl.After(now) {
			return 0, &net.OpError{Op: "read", Net: "udp", Err: ErrTimeout}
		}
		if dl.IsZero() {
			<-w
		} else {
			t := time.NewTimer(dl.Sub(now))
			select {
			case <-w:
			case <-t.C:
			}
			t.Stop()
		}
	}
}

func (c *packetConn) Write(b []byte) (int, error) {
	c.mu.Lock()
	closed := c.closed
	c.mu.Unlock()
	if closed {
		return 0, net.ErrClosed
	}
	return c.l.sock.sendTo(c.remote, b)
}

func (c *packetConn) Close() error {
	c.mu.Lock()
	if c.closed {
		c.mu.Unlock()
		return net.ErrClosed
	}
	c.closed = true
	close(c.wake)
	c.wake = make(chan struct{})
	c.mu.Unlock()
	c.l.mu.Lock()
	delete(c.l.conns, c.remote.String())
	c.l.mu.Unlock()
	return nil
}

func (c *packetConn) LocalAddr() net.Addr  { return c.l.sock.local }
func (c *packetConn) RemoteAddr() net.Addr { return c.remote }
func (c *packetConn) SetDeadline(t time.Time) error {
	return c.SetReadDeadline(t)
}
func (c *packetConn) SetReadDeadline(t time.Time) error {
	c.mu.Lock()
	c.rdeadline = t
	close(c.wake)
	c.wake = make(chan struct{})
	c.mu.Unlock()
	return nil
}
func (c *packetConn) SetWriteDeadline(t time.Time) error { return nil }
