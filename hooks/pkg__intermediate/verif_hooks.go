//go:build verif

package intermediate

import "time"

// VerifItem is a snapshot of one heap slot or map entry.
type VerifItem struct {
	Key       FlowKey
	Active    time.Time
	Inactive  time.Time
	Index     int  // ItemToExpire.index
	Slot      int  // position in the heap slice (-1 for map-only view)
	Ready     bool
	Retries   int
	InMap     bool // heap view: the key is present in the map and maps to this item's record
	ItemMatch bool // map view: record.PriorityQueueItem is the heap item found for this key
}

// VerifSnapshot returns, under the process mutex, every heap slot and every map entry.
func (a *AggregationProcess) VerifSnapshot() (heapItems []VerifItem, mapItems []VerifItem) {
	a.mutex.Lock()
	defer a.mutex.Unlock()
	for i, it := range a.expirePriorityQueue {
		v := VerifItem{Active: it.activeExpireTime, Inactive: it.inactiveExpireTime, Index: it.index, Slot: i}
		if it.flowKey != nil {
			v.Key = *it.flowKey
			if rec, ok := a.flowKeyRecordMap[*it.flowKey]; ok && rec == it.flowRecord {
				v.InMap = true
			}
		}
		if it.flowRecord != nil {
			v.Ready = it.flowRecord.ReadyToSend
			v.Retries = int(it.flowRecord.waitForReadyToSendRetries)
		}
		heapItems = append(heapItems, v)
	}
	for k, rec := range a.flowKeyRecordMap {
		v := VerifItem{Key: k, Slot: -1, Index: -2, Ready: rec.ReadyToSend, Retries: int(rec.waitForReadyToSendRetries)}
		if it := rec.PriorityQueueItem; it != nil {
			v.Active, v.Inactive, v.Index = it.activeExpireTime, it.inactiveExpireTime, it.index
			if it.index >= 0 && it.index < len(a.expirePriorityQueue) && a.expirePriorityQueue[it.index] == it {
				v.ItemMatch = true
			}
		}
		mapItems = append(mapItems, v)
	}
	return
}
