//go:build verif

package exporter

// VerifSetSeq places the sequence counter (so that the 2^32 wrap is reachable).
func (ep *ExportingProcess) VerifSetSeq(v uint32) { ep.seqNumber = v }

// VerifSeq reads the sequence counter.
func (ep *ExportingProcess) VerifSeq() uint32 { return ep.seqNumber }
