//go:build verif

package collector

import (
	"bytes"
	"sort"
	"time"

	"github.com/vmware/go-ipfix/pkg/entities"
)

// VerifDecodePacket forwards to the unexported decodePacket.
func (cp *CollectingProcess) VerifDecodePacket(buf []byte, exportAddress string) (*entities.Message, error) {
	return cp.decodePacket(bytes.NewBuffer(buf), exportAddress)
}

// VerifTimer / VerifClock export the unexported timer / clock seam.
type VerifTimer interface {
	Stop() bool
	Reset(d time.Duration) bool
}

type VerifClock interface {
	Now() time.Time
	AfterFunc(d time.Duration, f func()) VerifTimer
}

type verifClockAdapter struct{ c VerifClock }

func (a verifClockAdapter) Now() time.Time { return a.c.Now() }
func (a verifClockAdapter) AfterFunc(d time.Duration, f func()) timer {
	return a.c.AfterFunc(d, f)
}

// VerifNewWithClock forwards to initCollectingProcess with an external clock.
func VerifNewWithClock(input CollectorInput, c VerifClock) (*CollectingProcess, error) {
	return initCollectingProcess(input, verifClockAdapter{c})
}

// VerifTemplate is a read-only snapshot of one stored template.
type VerifTemplate struct {
	Domain   uint32
	ID       uint16
	IEs      []entities.InfoElement
	Expiry   time.Time
	HasTimer bool
	Timer    VerifTimer
}

// VerifTemplates snapshots the template table under the read lock, sorted.
func (cp *CollectingProcess) VerifTemplates() []VerifTemplate {
	cp.mutex.RLock()
	defer cp.mutex.RUnlock()
	var out []VerifTemplate
	for dom, m := range cp.templatesMap {
		for id, t := range m {
			vt := VerifTemplate{Domain: dom, ID: id, Expiry: t.expiryTime, HasTimer: t.expiryTimer != nil}
			if t.expiryTimer != nil {
				vt.Timer = t.expiryTimer
			}
			for _, ie := range t.ies {
				vt.IEs = append(vt.IEs, *ie)
			}
			out = append(out, vt)
		}
	}
	sort.Slice(out, func(i, j int) bool {
		if out[i].Domain != out[j].Domain {
			return out[i].Domain < out[j].Domain
		}
		return out[i].ID < out[j].ID
	})
	return out
}

// VerifEmptyDomains reports observation domains that are present with no template.
func (cp *CollectingProcess) VerifEmptyDomains() int {
	cp.mutex.RLock()
	defer cp.mutex.RUnlock()
	n := 0
	for _, m := range cp.templatesMap {
		if len(m) == 0 {
			n++
		}
	}
	return n
}

// VerifClients lists the client table keys.
func (cp *CollectingProcess) VerifClients() []string {
	cp.mutex.RLock()
	defer cp.mutex.RUnlock()
	var out []string
	for k := range cp.clients {
		out = append(out, k)
	}
	sort.Strings(out)
	return out
}
