//go:build verif

package cmdcollector

import (
	"net/http"

	"github.com/vmware/go-ipfix/pkg/entities"
)

// Thin forwards to the unexported code of cmd/collector (this package is the
// instrumented cmd/collector/collector.go with its package clause renamed).

func VerifAdd(msg *entities.Message)                            { addIPFIXMessage(msg) }
func VerifRecordsHandler(w http.ResponseWriter, r *http.Request) { flowRecordHandler(w, r) }
func VerifResetHandler(w http.ResponseWriter, r *http.Request)   { resetRecordHandler(w, r) }

const VerifCap = maxFlowRecords

// VerifClear empties the store between runs (the store is a package variable).
func VerifClear() {
	mutex.Lock()
	defer mutex.Unlock()
	flowRecords = nil
}

// VerifLen is the number of stored entries.
func VerifLen() int {
	mutex.Lock()
	defer mutex.Unlock()
	return len(flowRecords)
}
