#!/bin/bash
# build.sh <scratchdir> [race]  — instrument /repo's working tree and build the harness test binary.
# Exit 2 on any trouble.
set -u
export GOFLAGS=-mod=mod GOPROXY=off GOSUMDB=off GOTOOLCHAIN=local
VERIF=${VERIF_DIR:-$(cd "$(dirname "$(readlink -f "$0")")" && pwd)}
OUT=$1
RACE=${2:-}
cd $VERIF || exit 2
cp /repo/go.sum $VERIF/go.sum 2>/dev/null
cat $VERIF/go.sum.extra >> $VERIF/go.sum 2>/dev/null
mkdir -p "$OUT" || exit 2
if [ ! -x "$OUT/simbuild" ]; then
  go1.26.8 build -o "$OUT/simbuild" ./cmd/simbuild || exit 2
fi
if [ ! -f "$OUT/overlay.json" ]; then
  "$OUT/simbuild" -repo /repo ${VERIF_SRC:+-src "$VERIF_SRC"} -verif $VERIF -out "$OUT" || exit 2
fi
if [ -n "$RACE" ]; then
  go1.26.8 test -c -race -tags verif -overlay "$OUT/overlay.json" -vet=off -o "$OUT/harness.race.test" ./harness || exit 2
else
  go1.26.8 test -c -tags verif -overlay "$OUT/overlay.json" -vet=off -o "$OUT/harness.test" ./harness || exit 2
fi
exit 0
