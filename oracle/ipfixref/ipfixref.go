// Package ipfixref is an IPFIX (RFC 7011) encoder/decoder written from the RFC
// for use as an oracle. It shares no code with github.com/vmware/go-ipfix: it
// imports nothing but the standard library and knows nothing about registries —
// a field is (element id, enterprise number, length) and a value is its bytes.
package ipfixref

import (
	"encoding/binary"
	"errors"
	"fmt"
)

const (
	Version        = 10
	HeaderLen      = 16
	SetHeaderLen   = 4
	TemplateSetID  = 2
	OptionsSetID   = 3
	VariableLength = 65535
)

// Header is the 16-byte message header (RFC 7011 section 3.1).
type Header struct {
	Version    uint16
	Length     uint16
	ExportTime uint32
	Sequence   uint32
	Domain     uint32
}

// Field is a field specifier (RFC 7011 section 3.2).
type Field struct {
	ID  uint16 // 15 bits
	Ent uint32 // 0 = IANA (no enterprise bit)
	Len uint16 // 65535 = variable length
}

func (f Field) String() string { return fmt.Sprintf("%d/%d/%d", f.Ent, f.ID, f.Len) }

// TemplateRecord is one template record.
type TemplateRecord struct {
	ID     uint16
	Fields []Field
}

// Set is one set of a message.
type Set struct {
	ID        uint16
	Length    uint16 // as on the wire
	Body      []byte // bytes after the set header, Length-4 of them
	Templates []TemplateRecord
}

// Message is a parsed message.
type Message struct {
	Header Header
	Sets   []Set
}

// ParseHeader parses the message header.
func ParseHeader(b []byte) (Header, error) {
	if len(b) < HeaderLen {
		return Header{}, fmt.Errorf("short header: %d bytes", len(b))
	}
	return Header{
		Version:    binary.BigEndian.Uint16(b[0:2]),
		Length:     binary.BigEndian.Uint16(b[2:4]),
		ExportTime: binary.BigEndian.Uint32(b[4:8]),
		Sequence:   binary.BigEndian.Uint32(b[8:12]),
		Domain:     binary.BigEndian.Uint32(b[12:16]),
	}, nil
}

// ParseMessage parses exactly one message occupying all of b: version 10,
// header length == len(b), sets tile the rest exactly, template sets are parsed
// into records (trailing padding of fewer than 4 bytes allowed, must be zero).
func ParseMessage(b []byte) (*Message, error) {
	h, err := ParseHeader(b)
	if err != nil {
		return nil, err
	}
	if h.Version != Version {
		return nil, fmt.Errorf("version %d", h.Version)
	}
	if int(h.Length) != len(b) {
		return nil, fmt.Errorf("header length %d but %d bytes", h.Length, len(b))
	}
	m := &Message{Header: h}
	rest := b[HeaderLen:]
	for len(rest) > 0 {
		if len(rest) < SetHeaderLen {
			return nil, fmt.Errorf("%d stray bytes after last set", len(rest))
		}
		id := binary.BigEndian.Uint16(rest[0:2])
		l := binary.BigEndian.Uint16(rest[2:4])
		if int(l) < SetHeaderLen || int(l) > len(rest) {
			return nil, fmt.Errorf("set %d length %d does not fit the remaining %d bytes", id, l, len(rest))
		}
		if id < 2 || (id > 3 && id < 256) {
			return nil, fmt.Errorf("reserved set id %d", id)
		}
		s := Set{ID: id, Length: l, Body: rest[SetHeaderLen:l]}
		if id == TemplateSetID {
			trs, err := ParseTemplateSetBody(s.Body)
			if err != nil {
				return nil, err
			}
			s.Templates = trs
		}
		m.Sets = append(m.Sets, s)
		rest = rest[l:]
	}
	return m, nil
}

// ParseTemplateSetBody parses the body of a template set.
func ParseTemplateSetBody(body []byte) ([]TemplateRecord, error) {
	var out []TemplateRecord
	for len(body) >= 4 {
		tr, n, err := ParseTemplateRecord(body)
		if err != nil {
			return nil, err
		}
		out = append(out, tr)
		body = body[n:]
	}
	for _, c := range body {
		if c != 0 {
			return nil, errors.New("non-zero padding in template set")
		}
	}
	if len(out) == 0 {
		return nil, errors.New("template set without records")
	}
	return out, nil
}

// ParseTemplateRecord parses one template record at the start of b and returns
// the number of bytes consumed.
func ParseTemplateRecord(b []byte) (TemplateRecord, int, error) {
	if len(b) < 4 {
		return TemplateRecord{}, 0, errors.New("short template record header")
	}
	tr := TemplateRecord{ID: binary.BigEndian.Uint16(b[0:2])}
	count := int(binary.BigEndian.Uint16(b[2:4]))
	if tr.ID < 256 {
		return tr, 0, fmt.Errorf("template id %d < 256", tr.ID)
	}
	off := 4
	for i := 0; i < count; i++ {
		if len(b) < off+4 {
			return tr, 0, fmt.Errorf("template %d: field %d cut short", tr.ID, i)
		}
		raw := binary.BigEndian.Uint16(b[off : off+2])
		f := Field{ID: raw & 0x7fff, Len: binary.BigEndian.Uint16(b[off+2 : off+4])}
		off += 4
		if raw&0x8000 != 0 {
			if len(b) < off+4 {
				return tr, 0, fmt.Errorf("template %d: enterprise number of field %d cut short", tr.ID, i)
			}
			f.Ent = binary.BigEndian.Uint32(b[off : off+4])
			off += 4
			if f.Ent == 0 {
				return tr, 0, fmt.Errorf("template %d: enterprise bit with enterprise number 0", tr.ID)
			}
		}
		tr.Fields = append(tr.Fields, f)
	}
	return tr, off, nil
}

// MinRecordLen is the shortest possible data record for the fields.
func MinRecordLen(fields []Field) int {
	n := 0
	for _, f := range fields {
		if f.Len == VariableLength {
			n++
		} else {
			n += int(f.Len)
		}
	}
	return n
}

// ErrTruncated is returned by DecodeRecords when a record is cut short.
var ErrTruncated = errors.New("data record cut short")

// DecodeRecords slices a data-set body into records of raw field values
// according to fields. Decoding stops when fewer bytes remain than the shortest
// possible record (those bytes are padding); padding is returned as leftover.
// A record that starts (enough bytes for the minimum) but does not fit yields
// ErrTruncated together with the records decoded before it.
func DecodeRecords(body []byte, fields []Field) (recs [][][]byte, leftover int, err error) {
	min := MinRecordLen(fields)
	if min == 0 {
		if len(body) == 0 {
			return nil, 0, nil
		}
		return nil, len(body), errors.New("template defines zero-length records")
	}
	for len(body) >= min {
		rec := make([][]byte, 0, len(fields))
		b := body
		for _, f := range fields {
			var v []byte
			var n int
			v, n, err = ReadField(b, f)
			if err != nil {
				return recs, len(body), ErrTruncated
			}
			rec = append(rec, v)
			b = b[n:]
		}
		recs = append(recs, rec)
		body = b
	}
	return recs, len(body), nil
}

// ReadField reads one field value at the start of b; n is the number of bytes
// consumed including a variable-length prefix.
func ReadField(b []byte, f Field) (v []byte, n int, err error) {
	if f.Len != VariableLength {
		if len(b) < int(f.Len) {
			return nil, 0, ErrTruncated
		}
		return b[:f.Len], int(f.Len), nil
	}
	if len(b) < 1 {
		return nil, 0, ErrTruncated
	}
	l := int(b[0])
	p := 1
	if l == 255 {
		if len(b) < 3 {
			return nil, 0, ErrTruncated
		}
		l = int(binary.BigEndian.Uint16(b[1:3]))
		p = 3
	}
	if len(b) < p+l {
		return nil, 0, ErrTruncated
	}
	return b[p : p+l], p + l, nil
}

// ---- encoding ---------------------------------------------------------------

// EncodeVar length-prefixes a variable-length value (RFC 7011 section 7).
func EncodeVar(v []byte) []byte {
	if len(v) < 255 {
		return append([]byte{byte(len(v))}, v...)
	}
	out := make([]byte, 3, 3+len(v))
	out[0] = 255
	binary.BigEndian.PutUint16(out[1:3], uint16(len(v)))
	return append(out, v...)
}

// EncodeVarLong always uses the 3-byte prefix (legal for any length, RFC 7011 7).
func EncodeVarLong(v []byte) []byte {
	out := make([]byte, 3, 3+len(v))
	out[0] = 255
	binary.BigEndian.PutUint16(out[1:3], uint16(len(v)))
	return append(out, v...)
}

// EncodeTemplateRecord encodes a template record.
func EncodeTemplateRecord(tr TemplateRecord) []byte {
	out := make([]byte, 4)
	binary.BigEndian.PutUint16(out[0:2], tr.ID)
	binary.BigEndian.PutUint16(out[2:4], uint16(len(tr.Fields)))
	for _, f := range tr.Fields {
		var fb [8]byte
		id := f.ID & 0x7fff
		if f.Ent != 0 {
			id |= 0x8000
		}
		binary.BigEndian.PutUint16(fb[0:2], id)
		binary.BigEndian.PutUint16(fb[2:4], f.Len)
		if f.Ent != 0 {
			binary.BigEndian.PutUint32(fb[4:8], f.Ent)
			out = append(out, fb[:8]...)
		} else {
			out = append(out, fb[:4]...)
		}
	}
	return out
}

// EncodeSet wraps a body into a set.
func EncodeSet(id uint16, body []byte) []byte {
	out := make([]byte, 4, 4+len(body))
	binary.BigEndian.PutUint16(out[0:2], id)
	binary.BigEndian.PutUint16(out[2:4], uint16(4+len(body)))
	return append(out, body...)
}

// EncodeMessage builds a message from a header (Length is computed) and encoded sets.
func EncodeMessage(h Header, sets ...[]byte) []byte {
	n := HeaderLen
	for _, s := range sets {
		n += len(s)
	}
	out := make([]byte, HeaderLen, n)
	binary.BigEndian.PutUint16(out[0:2], Version)
	binary.BigEndian.PutUint16(out[2:4], uint16(n))
	binary.BigEndian.PutUint32(out[4:8], h.ExportTime)
	binary.BigEndian.PutUint32(out[8:12], h.Sequence)
	binary.BigEndian.PutUint32(out[12:16], h.Domain)
	for _, s := range sets {
		out = append(out, s...)
	}
	return out
}

// EncodeRecord concatenates field values, length-prefixing variable-length ones.
func EncodeRecord(fields []Field, vals [][]byte) []byte {
	var out []byte
	for i, f := range fields {
		if f.Len == VariableLength {
			out = append(out, EncodeVar(vals[i])...)
		} else {
			out = append(out, vals[i]...)
		}
	}
	return out
}
