// simbuild reads the current working tree of the repository, instruments the
// packages that take part in simulations (internal/instrument) into a scratch
// directory and writes a go -overlay file that (a) substitutes the instrumented
// files, (b) adds the in-package hook files from /verif/hooks, and (c) adds the
// virtual packages pkg/verifsim/{simrt,simnet,simrun,...} from /verif/verifsim.
//
// Exit status: 0 ok; 2 on any trouble (never 1: build problems are not violations).
package main

import (
	"encoding/json"
	"flag"
	"fmt"
	"os"
	"path/filepath"
	"regexp"
	"sort"
	"strings"

	"verif/internal/instrument"
)

func die(format string, a ...any) {
	fmt.Fprintf(os.Stderr, "simbuild: "+format+"\n", a...)
	os.Exit(2)
}

func main() {
	repo := flag.String("repo", "/repo", "repository working tree")
	srcTree := flag.String("src", "", "development aid: read the library sources from this tree (a scratch worktree) instead of -repo, still overlaying them onto -repo's paths; the registered checks never set it")
	verif := flag.String("verif", "/verif", "verification directory")
	out := flag.String("out", "", "scratch output directory (must exist)")
	nosteps := flag.Bool("nosteps", false, "socket and mutex rewrites only")
	verbose := flag.Bool("v", false, "verbose")
	flag.Parse()
	if *out == "" {
		die("-out required")
	}
	// package dir (relative to repo) -> instrument with steps?
	pkgs := []string{"pkg/collector", "pkg/exporter", "pkg/intermediate", "cmd/collector", "pkg/kafka/producer"}
	overlay := map[string]string{}
	var unsim, syncRet []string
	total := instrument.Result{}
	var allSites []string
	if *srcTree == "" {
		*srcTree = *repo
	}
	isSim := map[string]bool{}
	for _, pkg := range pkgs {
		isSim[pkg] = true
		dir := filepath.Join(*srcTree, pkg)
		ents, err := os.ReadDir(dir)
		if err != nil {
			die("read %s: %v", dir, err)
		}
		for _, e := range ents {
			name := e.Name()
			if e.IsDir() || !strings.HasSuffix(name, ".go") || strings.HasSuffix(name, "_test.go") {
				continue
			}
			src, err := os.ReadFile(filepath.Join(dir, name))
			if err != nil {
				die("%v", err)
			}
			path := filepath.Join(*repo, pkg, name)
			short := filepath.Join(filepath.Base(pkg), name)
			if strings.HasPrefix(pkg, "cmd/") {
				short = filepath.Join("cmd", filepath.Base(pkg), name)
			}
			res, err := instrument.File(path, short, src, !*nosteps)
			if err != nil {
				die("%v", err)
			}
			dst := filepath.Join(*out, "src", pkg, name)
			if err := os.MkdirAll(filepath.Dir(dst), 0o755); err != nil {
				die("%v", err)
			}
			if err := os.WriteFile(dst, res.Src, 0o644); err != nil {
				die("%v", err)
			}
			overlay[path] = dst
			if pkg == "cmd/collector" {
				// The standalone collector is package main and cannot be imported: the same
				// instrumented source is also offered as an importable virtual package, with nothing
				// changed but the package clause.
				re := regexp.MustCompile(`(?m)^package main\b`)
				if !re.Match(res.Src) {
					die("cmd/collector/%s: no package main clause", name)
				}
				alt := re.ReplaceAll(res.Src, []byte("package cmdcollector"))
				adst := filepath.Join(*out, "src", "pkg", "verifsim", "cmdcollector", name)
				if err := os.MkdirAll(filepath.Dir(adst), 0o755); err != nil {
					die("%v", err)
				}
				if err := os.WriteFile(adst, alt, 0o644); err != nil {
					die("%v", err)
				}
				overlay[filepath.Join(*repo, "pkg", "verifsim", "cmdcollector", name)] = adst
			}
			unsim = append(unsim, res.Unsim...)
			syncRet = append(syncRet, res.SyncReturn...)
			total.Steps += res.Steps
			total.Syncs += res.Syncs
			total.Rewrites += res.Rewrites
			allSites = append(allSites, res.Sites...)
			if *verbose {
				fmt.Fprintf(os.Stderr, "simbuild: %s steps=%d syncs=%d rewrites=%d\n", short, res.Steps, res.Syncs, res.Rewrites)
			}
		}
	}
	if *srcTree != *repo {
		// other packages of the scratch tree: overlay the files that differ
		for _, top := range []string{"pkg", "cmd"} {
			filepath.Walk(filepath.Join(*srcTree, top), func(p string, info os.FileInfo, err error) error {
				if err != nil || info.IsDir() || !strings.HasSuffix(p, ".go") || strings.HasSuffix(p, "_test.go") {
					return nil
				}
				rel, _ := filepath.Rel(*srcTree, p)
				if isSim[filepath.Dir(rel)] {
					return nil
				}
				a, _ := os.ReadFile(p)
				b, err := os.ReadFile(filepath.Join(*repo, rel))
				if err != nil || string(a) != string(b) {
					overlay[filepath.Join(*repo, rel)] = p
					fmt.Fprintf(os.Stderr, "simbuild: -src: %s differs, overlaid\n", rel)
				}
				return nil
			})
		}
	}
	if len(unsim) > 0 {
		die("unsimulated socket call(s): %s", strings.Join(unsim, "; "))
	}
	if len(syncRet) > 0 {
		fmt.Fprintf(os.Stderr, "simbuild: note: blocking operation inside return statement (no park after it): %s\n", strings.Join(syncRet, "; "))
	}
	// hook files: /verif/hooks/<pkg path with / replaced by _>/*.go
	hookRoot := filepath.Join(*verif, "hooks")
	hookDirs, _ := os.ReadDir(hookRoot)
	for _, hd := range hookDirs {
		if !hd.IsDir() {
			continue
		}
		pkg := strings.ReplaceAll(hd.Name(), "__", "/")
		files, _ := os.ReadDir(filepath.Join(hookRoot, hd.Name()))
		for _, f := range files {
			if strings.HasSuffix(f.Name(), ".go") {
				overlay[filepath.Join(*repo, pkg, f.Name())] = filepath.Join(hookRoot, hd.Name(), f.Name())
			}
		}
	}
	// virtual packages
	vroot := filepath.Join(*verif, "verifsim")
	filepath.Walk(vroot, func(p string, info os.FileInfo, err error) error {
		if err != nil || info.IsDir() || !strings.HasSuffix(p, ".go") {
			return nil
		}
		rel, _ := filepath.Rel(vroot, p)
		overlay[filepath.Join(*repo, "pkg", "verifsim", rel)] = p
		return nil
	})
	keys := make([]string, 0, len(overlay))
	for k := range overlay {
		keys = append(keys, k)
	}
	sort.Strings(keys)
	ov := struct{ Replace map[string]string }{overlay}
	b, _ := json.MarshalIndent(ov, "", " ")
	if err := os.WriteFile(filepath.Join(*out, "overlay.json"), b, 0o644); err != nil {
		die("%v", err)
	}
	sort.Strings(allSites)
	if err := os.WriteFile(filepath.Join(*out, "sites.txt"), []byte(strings.Join(allSites, "\n")+"\n"), 0o644); err != nil {
		die("%v", err)
	}
	fmt.Fprintf(os.Stderr, "simbuild: %d files in overlay, %d step points, %d sync points, %d rewrites\n", len(keys), total.Steps, total.Syncs, total.Rewrites)
}
