// verifrun is the coordinator behind /verif/check: it rebuilds the simulation
// binary from /repo's working tree, fans seeded runs out to worker processes,
// attributes worker crashes to the journalled plan, minimises and replays
// violations in fresh processes, matches them against known findings, prints
// the VIOLATION / KNOWN-FINDING lines and writes the evidence file.
//
// Exit status: 0 property held on everything explored (known findings aside),
// 1 violation (a VIOLATION line was printed), 2 harness/build trouble.
package main

import (
	"bytes"
	"encoding/json"
	"flag"
	"fmt"
	"os"
	"os/exec"
	"path/filepath"
	"regexp"
	"runtime"
	"sort"
	"strconv"
	"strings"
	"sync"
	"time"

	"verif/sim/plan"
)

var verifDir = func() string {
	if d := os.Getenv("VERIF_DIR"); d != "" {
		return d
	}
	return "/verif"
}()

type propInfo struct {
	ID              string   `json:"id"`
	Quick           int      `json:"quick"`
	Thorough        int      `json:"thorough"`
	RaceQuick       int      `json:"race_quick"`
	RaceThorough    int      `json:"race_thorough"`
	Real            []string `json:"real"`
	Stub            []string `json:"stub"`
	Rule            string   `json:"rule"`
	HasRace         bool     `json:"has_race"`
	HangIsViolation bool     `json:"hang_is_violation"`
}

type batchResult struct {
	Worker     int               `json:"worker"`
	Layer      string            `json:"layer"`
	Runs       int               `json:"runs"`
	Counters   map[string]int64  `json:"counters"`
	SimSeconds float64           `json:"sim_seconds"`
	Hashes     []string          `json:"hashes"`
	Samples    []json.RawMessage `json:"samples"`
	Violations []found           `json:"violations"`
	SigRuns    map[string]int64  `json:"sig_runs"`
	Troubles   []string          `json:"troubles"`
	NextIndex  int               `json:"next_index"`
	WallS      float64           `json:"wall_s"`
}

type found struct {
	Seed    uint64        `json:"seed"`
	Plan    *plan.Plan    `json:"plan"`
	Outcome *plan.Outcome `json:"outcome"`
}

type knownFinding struct {
	Property  string `json:"property"`
	Status    string `json:"status"` // "known" | "fixed"
	Signature string `json:"signature"`
	What      string `json:"what"`
	Commit    string `json:"commit,omitempty"`
}

func trouble(format string, a ...any) {
	fmt.Fprintf(os.Stderr, "verifrun: TROUBLE: "+format+"\n", a...)
	os.Exit(2)
}

var hangIsViolation bool

var (
	scratch string
	bin     = map[string]string{}
	prop    string
	tier    string
	base    uint64
)

func goEnv() []string {
	return append(os.Environ(), "GOFLAGS=-mod=mod", "GOPROXY=off", "GOSUMDB=off", "GOTOOLCHAIN=local")
}

func build(race bool) {
	args := []string{scratch}
	if race {
		args = append(args, "race")
	}
	cmd := exec.Command(filepath.Join(verifDir, "build.sh"), args...)
	cmd.Env = goEnv()
	var buf bytes.Buffer
	cmd.Stdout, cmd.Stderr = &buf, &buf
	if err := cmd.Run(); err != nil {
		trouble("build failed (race=%v): %v\n%s", race, err, buf.String())
	}
	if race {
		bin["race"] = filepath.Join(scratch, "harness.race.test")
	} else {
		bin["sim"] = filepath.Join(scratch, "harness.test")
	}
}

func harnessCmd(layer string, args ...string) *exec.Cmd {
	full := append([]string{"-test.run", "^TestVerif$", "-test.timeout", "0", "-verif.prop=" + prop, "-verif.tier=" + tier, "-verif.layer=" + layer}, args...)
	cmd := exec.Command(bin[layer], full...)
	cmd.Env = os.Environ()
	if layer == "race" {
		cmd.Env = append(cmd.Env, "GOMAXPROCS=4")
	} else {
		cmd.Env = append(cmd.Env, "GOMAXPROCS=1")
	}
	return cmd
}

func info() propInfo {
	cmd := harnessCmd("sim", "-verif.mode=info")
	out, err := cmd.Output()
	if err != nil {
		trouble("info: %v", err)
	}
	// the JSON is on the line starting with {"id"
	for _, line := range strings.Split(string(out), "\n") {
		if strings.HasPrefix(line, `{`) && strings.Contains(line, `"id"`) {
			var pi propInfo
			if err := json.Unmarshal([]byte(line), &pi); err != nil {
				trouble("info parse: %v", err)
			}
			return pi
		}
	}
	trouble("info: no JSON in output: %s", out)
	return propInfo{}
}

var panicFrameRe = regexp.MustCompile(`github\.com/vmware/go-ipfix/(pkg|cmd)/([A-Za-z0-9_/]+)\.(\S+)`)

// crashSig classifies the stderr of a dead worker.
func crashSig(stderr string) (sig string, isRepo bool) {
	i := strings.Index(stderr, "panic: ")
	j := strings.Index(stderr, "fatal error: ")
	if i < 0 && j < 0 {
		return "", false
	}
	if i < 0 || (j >= 0 && j < i) {
		i = j
	}
	rest := stderr[i:]
	// frames of the panicking goroutine: up to the first blank line after "goroutine N ["
	g := strings.Index(rest, "goroutine ")
	if g < 0 {
		return "", false
	}
	blk := rest[g:]
	if k := strings.Index(blk, "\n\n"); k > 0 {
		blk = blk[:k]
	}
	for _, line := range strings.Split(blk, "\n") {
		if strings.HasPrefix(line, "\t") {
			continue
		}
		m := panicFrameRe.FindStringSubmatch(line)
		if m == nil || (strings.HasPrefix(m[2], "verifsim") && !strings.HasPrefix(m[2], "verifsim/cmdcollector")) {
			if strings.Contains(line, "verif/harness") {
				// reached harness code before any repo frame: harness is on top only if no repo frame was seen
				continue
			}
			continue
		}
		fn := m[3]
		if i := strings.LastIndex(fn, "("); i > 0 {
			fn = fn[:i]
		}
		return m[2] + "." + fn, true
	}
	return "", false
}

type layerTotals struct {
	Runs       int
	Counters   map[string]int64
	SimSeconds float64
	Hashes     map[string]bool
	Samples    []json.RawMessage
	Found      []found
	SigRuns    map[string]int64 // runs per violation signature as counted by the workers (Found is a sample)
	Troubles   []string
	Notes      []string // things worth saying that are neither violations nor trouble
	// HangConfirmed: a run that exceeded the real-time cap was stuck again when re-run
	HangConfirmed bool
	Wall          float64
	Crashes       int
}

func runLayer(layer string, total int, capSecs int) *layerTotals {
	lt := &layerTotals{Counters: map[string]int64{}, Hashes: map[string]bool{}}
	W := runtime.NumCPU()
	if W > 16 {
		W = 16
	}
	if layer == "race" && W > 6 {
		W = 6
	}
	if v, err := strconv.Atoi(os.Getenv("VERIF_WORKERS")); err == nil && v > 0 && v < W {
		W = v
	}
	if total < W {
		W = total
	}
	if W < 1 {
		return lt
	}
	outDir := filepath.Join(scratch, "out-"+layer)
	os.MkdirAll(outDir, 0o755)
	var mu sync.Mutex
	var wg sync.WaitGroup
	start := time.Now()
	merge := func(path string) *batchResult {
		b, err := os.ReadFile(path)
		if err != nil {
			return nil
		}
		var r batchResult
		if json.Unmarshal(b, &r) != nil {
			return nil
		}
		mu.Lock()
		defer mu.Unlock()
		lt.Runs += r.Runs
		lt.SimSeconds += r.SimSeconds
		for k, v := range r.Counters {
			lt.Counters[k] += v
		}
		for _, h := range r.Hashes {
			lt.Hashes[h] = true
		}
		if len(lt.Samples) < 4 {
			lt.Samples = append(lt.Samples, r.Samples...)
		}
		lt.Found = append(lt.Found, r.Violations...)
		for sg, n := range r.SigRuns {
			if lt.SigRuns == nil {
				lt.SigRuns = map[string]int64{}
			}
			lt.SigRuns[sg] += n
		}
		lt.Troubles = append(lt.Troubles, r.Troubles...)
		return &r
	}
	for w := 0; w < W; w++ {
		wg.Add(1)
		go func(w int) {
			defer wg.Done()
			n := total / W
			if w < total%W {
				n++
			}
			from := w
			for attempt := 0; n > 0 && attempt < 40; attempt++ {
				resPath := filepath.Join(outDir, fmt.Sprintf("result-%s-%d.json", layer, w))
				os.Remove(resPath)
				remaining := capSecs - int(time.Since(start).Seconds())
				if remaining < 1 {
					return
				}
				cmd := harnessCmd(layer, "-verif.mode=batch", "-verif.base="+strconv.FormatUint(base, 10),
					"-verif.from="+strconv.Itoa(from), "-verif.n="+strconv.Itoa(n), "-verif.stride="+strconv.Itoa(W),
					"-verif.out="+outDir, "-verif.worker="+strconv.Itoa(w), "-verif.secs="+strconv.Itoa(remaining), "-verif.runcap=40")
				if layer == "race" {
					cmd.Env = append(cmd.Env, "GORACE=halt_on_error=0 log_path="+filepath.Join(outDir, fmt.Sprintf("racelog-%d", w)))
				}
				var stderr bytes.Buffer
				cmd.Stderr = &stderr
				cmd.Stdout = nil
				done := make(chan error, 1)
				if err := cmd.Start(); err != nil {
					mu.Lock()
					lt.Troubles = append(lt.Troubles, "start worker: "+err.Error())
					mu.Unlock()
					return
				}
				go func() { done <- cmd.Wait() }()
				var err error
				select {
				case err = <-done:
				case <-time.After(time.Duration(remaining+60) * time.Second):
					cmd.Process.Kill()
					<-done
					mu.Lock()
					lt.Troubles = append(lt.Troubles, fmt.Sprintf("worker %d killed by the watchdog after %ds", w, remaining+60))
					mu.Unlock()
					merge(resPath)
					return
				}
				r := merge(resPath)
				if err == nil || (layer == "race" && exitCode(err) == 66) {
					return
				}
				if r != nil && r.Runs >= n {
					return // the batch completed; a failing exit status comes from the test framework (e.g. a recovered bubble deadlock)
				}
				// the worker died: attribute to the journalled plan
				jpath := filepath.Join(outDir, fmt.Sprintf("journal-%s-%d.json", layer, w))
				jp, jerr := plan.Load(jpath)
				se := stderr.String()
				sig, isRepo := crashSig(se)
				hangMarker := filepath.Join(outDir, fmt.Sprintf("hang-%s-%d", layer, w))
				if _, herr := os.Stat(hangMarker); herr == nil && exitCode(err) == 3 {
					os.Remove(hangMarker)
					// One run did not finish within the real-time cap. A machine that is busy with other
					// things can do that to a run that is in order: the plan is executed again in a fresh
					// process (the sim layer is deterministic - a run that is stuck is stuck again; the
					// race layer gets two more tries) before anything is concluded from it.
					mu.Lock()
					believed := lt.HangConfirmed
					mu.Unlock()
					again := believed || jerr != nil || stuckAgain(jp, layer, fmt.Sprintf("stall-%s-%d-%d", layer, w, attempt))
					if again && !believed {
						mu.Lock()
						lt.HangConfirmed = true // one confirmed stuck run: later ones of this batch are taken at their word
						mu.Unlock()
					}
					if !again {
						mu.Lock()
						lt.Notes = append(lt.Notes, fmt.Sprintf("run seed %d (%s layer) exceeded the real-time cap once and finished normally when run again in a fresh process: not counted", jp.Seed, layer))
						idx := int(jp.Seed - base*1_000_003)
						doneRuns := (idx-from)/W + 1
						if r != nil && r.Runs > doneRuns {
							doneRuns = r.Runs
						}
						have := 0
						if r != nil {
							have = r.Runs
						}
						if doneRuns > have {
							lt.Runs += doneRuns - have
						}
						mu.Unlock()
						from = idx + W
						n -= doneRuns
						continue
					}
					if hangIsViolation && jerr == nil {
						sig, isRepo = "hang", true
						se = "panic: the run made no progress in real time (a goroutine is blocked on a lock that nothing will release)\n\ngoroutine 0 [running]:\n"
					} else {
						sig, isRepo = "", false
						se = "run exceeded the real-time cap"
					}
				}
				mu.Lock()
				lt.Crashes++
				if jerr != nil || !isRepo {
					js := "plan not journalled"
					if jerr == nil {
						js = fmt.Sprintf("run seed %d", jp.Seed)
					}
					lt.Troubles = append(lt.Troubles, fmt.Sprintf("worker %d died (%v, %s) outside go-ipfix code: %s", w, err, js, tail(se, 2500)))
					mu.Unlock()
					return
				}
				o := &plan.Outcome{Counters: map[string]int64{}}
				if sig == "hang" {
					o.Violate(prop, "hang", layer, "worker process died: the run did not finish within the real-time cap: a goroutine of the process under test is blocked for good (the plan is in the replay file)")
				} else {
					o.Violate(prop, "panic", sig, "worker process died: %s", tail(firstPanic(se), 1500))
				}
				lt.Found = append(lt.Found, found{Seed: jp.Seed, Plan: jp, Outcome: o})
				mu.Unlock()
				// continue after the crashing run
				idx := int(jp.Seed - base*1_000_003)
				doneRuns := (idx-from)/W + 1
				if r != nil && r.Runs > doneRuns {
					doneRuns = r.Runs
				}
				mu.Lock()
				if r == nil || r.Runs < doneRuns {
					have := 0
					if r != nil {
						have = r.Runs
					}
					lt.Runs += doneRuns - have
				}
				mu.Unlock()
				from = idx + W
				n -= doneRuns
			}
		}(w)
	}
	wg.Wait()
	lt.Wall = time.Since(start).Seconds()
	return lt
}

func exitCode(err error) int {
	if ee, ok := err.(*exec.ExitError); ok {
		return ee.ExitCode()
	}
	return -1
}

func tail(s string, n int) string {
	if len(s) > n {
		return "..." + s[len(s)-n:]
	}
	return s
}

func firstPanic(s string) string {
	i := strings.Index(s, "panic: ")
	if j := strings.Index(s, "fatal error: "); j >= 0 && (i < 0 || j < i) {
		i = j
	}
	if i < 0 {
		return s
	}
	s = s[i:]
	if len(s) > 1500 {
		s = s[:1500]
	}
	return s
}

// runPlan executes one plan in a fresh process and returns its outcome; a crash
// inside go-ipfix code is converted into a panic violation.
// stuckAgain executes a plan in a fresh process of the given layer and reports whether it fails to
// finish in real time again (race layer: in any of two tries).
func stuckAgain(pl *plan.Plan, layer, tag string) bool {
	tries, limit := 1, 100*time.Second
	if layer == "race" {
		tries, limit = 2, 75*time.Second
	}
	for t := 0; t < tries; t++ {
		pf := filepath.Join(scratch, fmt.Sprintf("plan-%s-%d.json", tag, t))
		of := filepath.Join(scratch, fmt.Sprintf("outcome-%s-%d.json", tag, t))
		os.WriteFile(pf, pl.JSON(), 0o644)
		cmd := harnessCmd(layer, "-verif.mode=run", "-verif.plan="+pf, "-verif.out="+of, "-verif.runcap=600")
		if layer == "race" {
			cmd.Env = append(cmd.Env, "GORACE=halt_on_error=0 log_path="+of+".racelog")
		}
		if cmd.Start() != nil {
			return true
		}
		done := make(chan error, 1)
		go func() { done <- cmd.Wait() }()
		select {
		case <-done:
		case <-time.After(limit):
			cmd.Process.Kill()
			<-done
			return true
		}
	}
	return false
}

func runPlan(pl *plan.Plan, tag string) *plan.Outcome {
	layer := "sim"
	if pl.Mode == "race" {
		layer = "race"
	}
	pf := filepath.Join(scratch, "plan-"+tag+".json")
	of := filepath.Join(scratch, "outcome-"+tag+".json")
	os.WriteFile(pf, pl.JSON(), 0o644)
	os.Remove(of)
	cmd := harnessCmd(layer, "-verif.mode=run", "-verif.plan="+pf, "-verif.out="+of)
	if layer == "race" {
		cmd.Env = append(cmd.Env, "GORACE=halt_on_error=0 log_path="+of+".racelog")
	}
	var stderr bytes.Buffer
	cmd.Stderr = &stderr
	done := make(chan error, 1)
	if err := cmd.Start(); err != nil {
		return &plan.Outcome{Trouble: err.Error()}
	}
	go func() { done <- cmd.Wait() }()
	var err error
	limit := 120 * time.Second
	if layer == "race" {
		limit = 45 * time.Second
	}
	select {
	case err = <-done:
	case <-time.After(limit):
		cmd.Process.Kill()
		<-done
		if hangIsViolation && layer == "race" {
			o := &plan.Outcome{Counters: map[string]int64{}}
			o.Violate(prop, "hang", layer, "process did not finish within %v of real time: a goroutine of the process under test is blocked for good", limit)
			return o
		}
		return &plan.Outcome{Trouble: "replay timed out"}
	}
	b, rerr := os.ReadFile(of)
	if rerr == nil {
		var o plan.Outcome
		if json.Unmarshal(b, &o) == nil {
			return &o
		}
	}
	if err != nil {
		if sig, isRepo := crashSig(stderr.String()); isRepo {
			o := &plan.Outcome{Counters: map[string]int64{}}
			o.Violate(prop, "panic", sig, "process died: %s", tail(firstPanic(stderr.String()), 1500))
			return o
		}
		return &plan.Outcome{Trouble: fmt.Sprintf("replay process failed: %v: %s", err, tail(stderr.String(), 1500))}
	}
	return &plan.Outcome{Trouble: "no outcome written"}
}

type minResult struct {
	Plan    *plan.Plan    `json:"plan"`
	Outcome *plan.Outcome `json:"outcome"`
	Reruns  int           `json:"reruns"`
}

// minimise shrinks a failing plan. In-process first (fast); if the violation
// kills the process, one process per candidate.
func minimise(f found, sig string, crash bool, tag string) (*plan.Plan, int) {
	if !crash {
		layer := "sim"
		if f.Plan.Mode == "race" {
			layer = "race"
		}
		pf := filepath.Join(scratch, "min-in-"+tag+".json")
		of := filepath.Join(scratch, "min-out-"+tag+".json")
		os.WriteFile(pf, f.Plan.JSON(), 0o644)
		cmd := harnessCmd(layer, "-verif.mode=min", "-verif.plan="+pf, "-verif.out="+of, "-verif.sig="+sig)
		if layer == "race" {
			cmd.Env = append(cmd.Env, "GORACE=halt_on_error=0 log_path="+of+".racelog")
		}
		done := make(chan error, 1)
		if cmd.Start() == nil {
			go func() { done <- cmd.Wait() }()
			select {
			case <-done:
			case <-time.After(150 * time.Second):
				cmd.Process.Kill()
				<-done
			}
		}
		if b, err := os.ReadFile(of); err == nil {
			var mr minResult
			if json.Unmarshal(b, &mr) == nil && mr.Plan != nil && mr.Outcome != nil && mr.Outcome.Has(sig) {
				return mr.Plan, mr.Reruns
			}
		}
		// fall through to the slow path
	}
	deadline := time.Now().Add(90 * time.Second)
	if strings.Contains(sig, ":hang") {
		return f.Plan, 0 // every candidate would cost the full real-time cap: report the plan as found
	}
	n := 0
	best, runs := plan.Minimise(f.Plan, sig, 120, func(c *plan.Plan) *plan.Outcome {
		if time.Now().After(deadline) {
			return nil
		}
		n++
		return runPlan(c, fmt.Sprintf("%s-c%d", tag, n))
	}, nil)
	return best, runs
}

func loadKnown() []knownFinding {
	b, err := os.ReadFile(filepath.Join(verifDir, "known_findings.json"))
	if err != nil {
		return nil
	}
	var ks []knownFinding
	if err := json.Unmarshal(b, &ks); err != nil {
		trouble("known_findings.json: %v", err)
	}
	return ks
}

func main() {
	flag.StringVar(&prop, "prop", "", "property id")
	flag.StringVar(&tier, "tier", "quick", "quick | thorough")
	replay := flag.String("replay", "", "replay a plan / replay file and print the outcome")
	runsOverride := flag.Int("runs", 0, "override the number of sim-layer runs")
	flag.Parse()
	if t := os.Getenv("VERIF_TIER"); t != "" && !isFlagSet("tier") {
		tier = t
	}
	base = 1
	if s := os.Getenv("VERIF_SEED"); s != "" {
		v, err := strconv.ParseUint(s, 10, 64)
		if err != nil {
			trouble("VERIF_SEED: %v", err)
		}
		base = v
	}
	if prop == "" {
		trouble("-prop required")
	}
	start := time.Now()
	var err error
	scratch, err = os.MkdirTemp("", "verif-"+prop+"-")
	if err != nil {
		trouble("%v", err)
	}
	defer os.RemoveAll(scratch)
	fmt.Printf("VERIF_SEED=%d property=%s tier=%s\n", base, prop, tier)
	build(false)
	pi := info()
	hangIsViolation = pi.HangIsViolation

	if *replay != "" {
		pl, err := plan.Load(*replay)
		if err != nil {
			trouble("%v", err)
		}
		if pl.Mode == "race" {
			build(true)
		}
		o := runPlan(pl, "replay")
		b, _ := json.MarshalIndent(o, "", " ")
		fmt.Println(string(b))
		if o.Trouble != "" {
			os.RemoveAll(scratch)
			os.Exit(2)
		}
		if len(o.Violations) > 0 {
			fmt.Printf("VIOLATION property=%s replay=%s\n", prop, *replay)
			os.RemoveAll(scratch)
			os.Exit(1)
		}
		return
	}

	nSim, nRace := pi.Quick, pi.RaceQuick
	capSecs := 150
	if tier == "thorough" {
		nSim, nRace = pi.Thorough, pi.RaceThorough
		capSecs = 1500
	}
	if *runsOverride > 0 {
		nSim = *runsOverride
	}
	layers := map[string]*layerTotals{}
	layers["sim"] = runLayer("sim", nSim, capSecs)
	if pi.HasRace && nRace > 0 {
		build(true)
		layers["race"] = runLayer("race", nRace, capSecs)
	}

	// ---- violations -------------------------------------------------------
	known := loadKnown()
	type group struct {
		sig   string
		first found
		viol  plan.Violation
		count int
	}
	groups := map[string]*group{}
	var order []string
	totalViol := 0
	for _, ln := range []string{"sim", "race"} {
		lt := layers[ln]
		if lt == nil {
			continue
		}
		sort.Slice(lt.Found, func(i, j int) bool { return lt.Found[i].Seed < lt.Found[j].Seed })
		for _, f := range lt.Found {
			seen := map[string]bool{}
			for _, v := range f.Outcome.Violations {
				s := v.Sig()
				if seen[s] {
					continue
				}
				seen[s] = true
				totalViol++
				g := groups[s]
				if g == nil {
					g = &group{sig: s, first: f, viol: v}
					groups[s] = g
					order = append(order, s)
				}
				g.count++
			}
		}
	}
	// the workers keep a few runs per signature and count the rest
	for s, g := range groups {
		var n int64
		for _, ln := range []string{"sim", "race"} {
			if lt := layers[ln]; lt != nil {
				n += lt.SigRuns[s]
			}
		}
		if int(n) > g.count {
			totalViol += int(n) - g.count
			g.count = int(n)
		}
	}
	exit := 0
	reported := 0
	nondet := 0
	os.MkdirAll(filepath.Join(verifDir, "replays"), 0o755)
	for gi, s := range order {
		g := groups[s]
		var kf *knownFinding
		for i := range known {
			if known[i].Status == "known" && known[i].Property == prop && known[i].Signature == s {
				kf = &known[i]
			}
		}
		if kf != nil {
			fmt.Printf("KNOWN-FINDING: property=%s %s (signature %s, %d runs)\n", prop, kf.What, s, g.count)
			continue
		}
		if reported >= 5 {
			fmt.Printf("(further violation signature not minimised: %s, %d runs)\n", s, g.count)
			exit = 1
			continue
		}
		reported++
		crash := (g.viol.Clause == "panic" || g.viol.Clause == "hang") && strings.HasPrefix(g.viol.Detail, "worker process died")
		tag := fmt.Sprintf("g%d", gi)
		minPlan, reruns := minimise(g.first, s, crash, tag)
		// fresh-process replay, twice: same signature and same event-log hash
		o1 := runPlan(minPlan, tag+"-r1")
		o2 := runPlan(minPlan, tag+"-r2")
		rate := "2/2"
		final := minPlan
		minimised := true
		if !(o1.Has(s) && o2.Has(s)) {
			// the minimised plan does not replay: fall back to the original plan
			p1 := runPlan(g.first.Plan, tag+"-o1")
			minimised = false
			final = g.first.Plan
			o1 = p1
			if p1.Has(s) {
				rate = "original plan 1/1 (minimised plan did not replay)"
			} else {
				rate = "0/1 in a fresh process (violation was observed in the batch worker)"
				nondet++
			}
		} else if o1.Hash != o2.Hash {
			rate = "2/2 by signature, event-log hashes differ"
			nondet++
		}
		rf := plan.ReplayFile{Property: prop, Signature: s, Violation: g.viol, Seed: g.first.Seed, Plan: final, Hash: o1.Hash,
			Minimised: minimised, Reruns: reruns, ReplayRate: rate, Log: o1.Log,
			HowTo: fmt.Sprintf("cd %s && ./check %s --replay <this file>", verifDir, prop)}
		if minimised {
			rf.Original = g.first.Plan
		}
		for _, v := range o1.Violations {
			if v.Sig() == s {
				rf.Violation = v
			}
		}
		path := filepath.Join(verifDir, "replays", fmt.Sprintf("%s-%d-%d.json", prop, g.first.Seed, gi))
		b, _ := json.MarshalIndent(rf, "", " ")
		os.WriteFile(path, b, 0o644)
		fmt.Printf("violation: %s: %s\n", s, oneLine(rf.Violation.Detail, 400))
		fmt.Printf("VIOLATION property=%s replay=%s\n", prop, path)
		exit = 1
	}

	// ---- determinism probe -------------------------------------------------
	// A few run seeds of the sim layer are executed again in fresh processes at GOMAXPROCS 1, 4 and
	// 16; event-log hash and violation signatures must agree (the full self-test is ./check selftest).
	probeSeeds := 3
	if tier == "thorough" {
		probeSeeds = 12
	}
	probeSame, probeDiff := determinismProbe(probeSeeds)
	nondet += probeDiff

	// ---- trouble ----------------------------------------------------------
	var troubles []string
	for _, lt := range layers {
		troubles = append(troubles, lt.Troubles...)
		for _, n := range lt.Notes {
			fmt.Printf("note: %s\n", n)
		}
	}
	// ---- evidence ---------------------------------------------------------
	evalTotal := 0
	hashes := map[string]bool{}
	counters := map[string]int64{}
	var simSeconds float64
	var samples []json.RawMessage
	layerInfo := map[string]any{}
	for name, lt := range layers {
		evalTotal += lt.Runs
		for h := range lt.Hashes {
			hashes[name+":"+h] = true
		}
		for k, v := range lt.Counters {
			counters[k] += v
		}
		simSeconds += lt.SimSeconds
		samples = append(samples, lt.Samples...)
		layerInfo[name] = map[string]any{"runs": lt.Runs, "wall_s": lt.Wall, "distinct_nontrivial": len(lt.Hashes), "worker_crashes": lt.Crashes}
	}
	if len(samples) > 5 {
		samples = samples[:5]
	}
	wall := time.Since(start).Seconds()
	faults := map[string]int64{}
	probes := map[string]int64{}
	other := map[string]int64{}
	sitesHit := map[string]bool{}
	for k, v := range counters {
		switch {
		case strings.HasPrefix(k, "net.") || strings.HasPrefix(k, "fault."):
			faults[k] = v
		case strings.HasPrefix(k, "probe."):
			probes[k] = v
		case strings.HasPrefix(k, "site."):
			sitesHit[strings.TrimPrefix(k, "site.")] = true
		default:
			other[k] = v
		}
	}
	ev := map[string]any{
		"property_id": prop,
		"tier":        tier,
		"seed":        base,
		"level":       "exploration",
		"wall_s":      wall,
		"violations":  totalViol,
		"coverage": map[string]any{
			"evaluations":              evalTotal,
			"distinct_nontrivial":      len(hashes),
			"rule":                     pi.Rule,
			"samples":                  samples,
			"runs_per_hour":            int(float64(evalTotal) / wall * 3600),
			"seeds":                    fmt.Sprintf("run i uses seed %d*1000003+i, i in [0,%d)", base, nSim),
			"simulated_seconds":        simSeconds,
			"faults_fired":             faults,
			"probes":                   probes,
			"counters":                 other,
			"layers":                   layerInfo,
			"components_real":          pi.Real,
			"components_stub":          pi.Stub,
			"nondeterministic_replays": nondet,
			"determinism_probe":        map[string]any{"seeds": probeSeeds, "processes_per_seed": 3, "gomaxprocs": []int{1, 4, 16}, "identical": probeSame, "different": probeDiff},
			"violation_signatures":     order,
			"library_statements":       statementReach(sitesHit),
			"harness_trouble":          len(troubles),
		},
		"assumptions": []string{
			"seeded search, not proof: a clean batch is evidence only for the plans and schedules that were run",
			"the source instrumenter (/verif/internal/instrument) only inserts scheduling calls and redirects socket/mutex identifiers; it is trusted not to change behaviour",
			"simnet models a stream as a reliable ordered byte pipe with arbitrary chunking and a datagram socket as lossy/duplicating/reordering; kernel buffering and retransmission are not modelled",
		},
	}
	os.MkdirAll(filepath.Join(verifDir, "evidence"), 0o755)
	eb, _ := json.MarshalIndent(ev, "", " ")
	if err := os.WriteFile(filepath.Join(verifDir, "evidence", prop+".json"), eb, 0o644); err != nil {
		trouble("write evidence: %v", err)
	}
	fmt.Printf("property=%s tier=%s runs=%d distinct_nontrivial=%d sim_seconds=%.0f wall=%.1fs violations=%d trouble=%d\n",
		prop, tier, evalTotal, len(hashes), simSeconds, wall, totalViol, len(troubles))
	if len(troubles) > 0 {
		for i, t := range troubles {
			if i < 5 {
				fmt.Fprintf(os.Stderr, "verifrun: trouble: %s\n", oneLine(t, 1500))
			}
		}
		if exit == 0 {
			os.RemoveAll(scratch)
			os.Exit(2)
		}
	}
	if evalTotal == 0 && exit == 0 {
		os.RemoveAll(scratch)
		trouble("nothing was run")
	}
	os.RemoveAll(scratch)
	os.Exit(exit)
}

// determinismProbe re-runs n generated plans three times each at different GOMAXPROCS.
func determinismProbe(n int) (same, diff int) {
	for i := 0; i < n; i++ {
		seed := base*1_000_003 + uint64(900_000+i)
		pf := filepath.Join(scratch, fmt.Sprintf("probe-%d.json", i))
		cmd := harnessCmd("sim", "-verif.mode=gen", "-verif.base="+strconv.FormatUint(seed, 10), "-verif.out="+pf)
		if cmd.Run() != nil {
			continue
		}
		pl, err := plan.Load(pf)
		if err != nil || pl.Mode == "plain" {
			continue // plans that run outside the simulator have no schedule to compare
		}
		pl.Seed = seed
		os.WriteFile(pf, pl.JSON(), 0o644)
		var sigs []string
		for _, g := range []string{"1", "4", "16"} {
			of := filepath.Join(scratch, fmt.Sprintf("probe-%d-%s.json", i, g))
			c := harnessCmd("sim", "-verif.mode=run", "-verif.plan="+pf, "-verif.out="+of)
			c.Env = append(c.Env, "GOMAXPROCS="+g)
			done := make(chan error, 1)
			if c.Start() != nil {
				continue
			}
			go func() { done <- c.Wait() }()
			select {
			case <-done:
			case <-time.After(60 * time.Second):
				c.Process.Kill()
				<-done
			}
			b, _ := os.ReadFile(of)
			var o plan.Outcome
			json.Unmarshal(b, &o)
			sg := o.Hash + "|" + o.Trouble
			for _, v := range o.Violations {
				sg += "|" + v.Sig()
			}
			sigs = append(sigs, sg)
		}
		ok := len(sigs) == 3 && sigs[0] == sigs[1] && sigs[1] == sigs[2]
		if ok {
			same++
		} else {
			diff++
			fmt.Fprintf(os.Stderr, "verifrun: determinism probe: seed %d gave different outcomes: %q\n", seed, sigs)
		}
	}
	return
}

func oneLine(s string, n int) string {
	s = strings.ReplaceAll(s, "\n", " | ")
	if len(s) > n {
		s = s[:n] + "..."
	}
	return s
}

func isFlagSet(name string) bool {
	set := false
	flag.Visit(func(f *flag.Flag) {
		if f.Name == name {
			set = true
		}
	})
	return set
}

// statementReach summarises which statements of the instrumented library packages the runs of this
// check executed: sites.txt (written by simbuild) lists every statement that got a Step call, the
// workers report the ones their processes reached. Per file: reached / instrumented, and the line
// numbers never reached (as ranges), so that a reader sees what this check's verdict says nothing about.
func statementReach(hit map[string]bool) map[string]any {
	b, err := os.ReadFile(filepath.Join(scratch, "sites.txt"))
	if err != nil {
		return map[string]any{"measured": false}
	}
	type fileInfo struct {
		total, reached int
		missed         []int
	}
	files := map[string]*fileInfo{}
	seen := map[string]bool{}
	total, reached := 0, 0
	for _, ln := range strings.Split(strings.TrimSpace(string(b)), "\n") {
		if ln == "" || seen[ln] {
			continue
		}
		seen[ln] = true
		i := strings.LastIndex(ln, ":")
		if i < 0 {
			continue
		}
		f := ln[:i]
		n, _ := strconv.Atoi(ln[i+1:])
		fi := files[f]
		if fi == nil {
			fi = &fileInfo{}
			files[f] = fi
		}
		fi.total++
		total++
		if hit[ln] {
			fi.reached++
			reached++
		} else {
			fi.missed = append(fi.missed, n)
		}
	}
	per := map[string]any{}
	for f, fi := range files {
		if fi.reached == 0 {
			per[f] = map[string]any{"instrumented": fi.total, "reached": 0}
			continue
		}
		sort.Ints(fi.missed)
		var rs []string
		for i := 0; i < len(fi.missed); {
			j := i
			for j+1 < len(fi.missed) && fi.missed[j+1] <= fi.missed[j]+1 {
				j++
			}
			if j == i {
				rs = append(rs, strconv.Itoa(fi.missed[i]))
			} else {
				rs = append(rs, fmt.Sprintf("%d-%d", fi.missed[i], fi.missed[j]))
			}
			i = j + 1
		}
		per[f] = map[string]any{"instrumented": fi.total, "reached": fi.reached, "lines_not_reached": strings.Join(rs, ",")}
	}
	return map[string]any{
		"measured":     true,
		"measure":      "statements (lines carrying a scheduling point) of pkg/collector, pkg/exporter, pkg/intermediate, pkg/kafka/producer and cmd/collector executed by at least one run of this check, all layers; pkg/entities, pkg/registry and pkg/util are not instrumented and not counted",
		"instrumented": total,
		"reached":      reached,
		"per_file":     per,
	}
}
